"""Rules on Loader.load / reader initialisation / hilbert.py shared by C04, C12, C15."""
from __future__ import annotations

import ast
from fractions import Fraction as F

from ..flow import enumerate_paths, guards_of, iter_stmts
from ..peval import Evaluator, Model, Unsupported, RaisedInModel, ReturnValue
from ..source import norm, const_value, walk_no_nested, FuncInfo, ClassInfo, AnalysisError
from .common import is_name, params, calls_in, returns_of, stores_in, flatten_targets, body_wo_doc
from .io_rules2 import TextEval, LOAD, AMR
from .keydomain import reader_kinds

HIL = "io/hilbert.py"
READER_CLASSES = ["io/amr.py::AmrReader", "io/hydro.py::HydroReader", "io/grav.py::GravReader", "io/rt.py::RtReader",
                  "io/part.py::PartReader"]


# =============================================================================== C12
def check_level_cap_live(run, tree):
    readers, kinds = reader_kinds(tree)
    domain = set(kinds.values())
    fi = tree.func(LOAD)
    run.analysed(fi)
    run.extra["select_key_domain"] = sorted(domain)
    # every literal used with _select must be a reader kind
    for n in walk_no_nested(fi.node):
        lit = None
        if isinstance(n, ast.Subscript) and is_name(n.value, "_select") and isinstance(const_value(n.slice), str):
            lit = const_value(n.slice)
        if isinstance(n, ast.Compare) and len(n.ops) == 1 and isinstance(n.ops[0], (ast.In, ast.NotIn)) and is_name(n.comparators[0], "_select") \
                and isinstance(const_value(n.left), str):
            lit = const_value(n.left)
        if isinstance(n, ast.Call) and isinstance(n.func, ast.Attribute) and n.func.attr == "get" and is_name(n.func.value, "_select") and n.args \
                and isinstance(const_value(n.args[0]), str):
            lit = const_value(n.args[0])
        if lit is not None:
            run.ob("%s::_select-key[%s]" % (LOAD, lit), lit in domain, fi.where(n),
                   "`%s`: _select is keyed by reader kind %s" % (norm(n), sorted(domain)),
                   "the test is statically false / the lookup raises KeyError: the code it guards (the level cap) never runs")
    # find_max_amr_level reachable and its result stored in meta['lmax']
    calls = [c for c in calls_in(fi.node) if isinstance(tree.resolve_call(fi, c), FuncInfo) and
             tree.resolve_call(fi, c).qual == "io/utils.py::find_max_amr_level"]
    if not calls:
        run.violated(LOAD + "::level-cap", fi.where(), "find_max_amr_level is never called", "a level predicate never caps the traversal")
        return
    c = calls[0]
    st = next((s for s in walk_no_nested(fi.node) if isinstance(s, ast.Assign) and s.value is c), None)
    ok_store = st is not None and norm(st.targets[0]) == "meta['lmax']"
    kws = {k.arg: norm(k.value) for k in c.keywords}
    ok_args = kws.get("levelmax") == "meta['levelmax']" and kws.get("select", "").startswith("_select[")
    sel_key = const_value(ast.parse(kws.get("select", "x['?']"), mode="eval").body.slice) if kws.get("select", "").startswith("_select[") else None
    run.ob(LOAD + "::level-cap-stored", ok_store and ok_args and sel_key in domain, fi.where(c),
           "meta['lmax'] = find_max_amr_level(%s)" % kws, "the cap is computed from the wrong selection or not used")
    g = guards_of(fi.node, st) or [] if st is not None else []
    gt = [norm(t) for t, pol in g if pol]
    need_level = any("'level' in _select[" in t for t in gt)
    run.ob(LOAD + "::level-cap-guard", need_level and all("_select" in t for t in gt), fi.where(st) if st is not None else fi.where(),
           "cap computed under %s" % gt, "the cap is skipped for valid selections or applied without a level predicate")


class NpList(Model):
    """tiny model of a 1-d integer/bool ndarray for find_max_amr_level"""

    def __init__(self, data):
        self.data = list(data)

    def ravel(self):
        return NpList([x[0] if isinstance(x, (list, tuple)) else x for x in self.data])

    def max(self):
        if not self.data:
            raise RaisedInModel(ast.Pass())
        return max(self.data)

    def min(self):
        return min(self.data)

    def sum(self):
        return sum(self.data)

    def __getitem__(self, i):
        if isinstance(i, NpList):
            if i.data and isinstance(i.data[0], bool):
                return NpList([x for x, m in zip(self.data, i.data) if m])
            return NpList([self.data[j] for j in i.data])
        return self.data[i]

    def __len__(self):
        return len(self.data)

    def __iter__(self):
        return iter(self.data)

    def _cmp(self, o, f):
        return NpList([f(x, o) for x in self.data])

    def __le__(self, o):
        return self._cmp(o, lambda a, b: a <= b)

    def __lt__(self, o):
        return self._cmp(o, lambda a, b: a < b)

    def __ge__(self, o):
        return self._cmp(o, lambda a, b: a >= b)

    def __gt__(self, o):
        return self._cmp(o, lambda a, b: a > b)

    def __eq__(self, o):
        return self._cmp(o, lambda a, b: a == b)

    __hash__ = None

    def __and__(self, o):
        return NpList([a and b for a, b in zip(self.data, o.data)])


def check_find_max_level(run, tree):
    fi = tree.func("io/utils.py::find_max_amr_level")
    run.analysed(fi)
    funcs = {
        "numpy.arange": lambda a, b=None, dtype=None: NpList(range(a, b) if b is not None else range(a)),
        "numpy.argwhere": lambda x: NpList([[i] for i, v in enumerate(x.data) if v]),
        "numpy.where": lambda x: (NpList([i for i, v in enumerate(x.data) if v]),),
        "numpy.nonzero": lambda x: (NpList([i for i, v in enumerate(x.data) if v]),),
        "numpy.flatnonzero": lambda x: NpList([i for i, v in enumerate(x.data) if v]),
        "numpy.count_nonzero": lambda x: sum(1 for v in x.data if v),
        "numpy.sum": lambda x: sum(x.data),
        "numpy.max": lambda x: max(x.data), "numpy.amax": lambda x: max(x.data),
        "numpy.any": lambda x: any(x.data),
    }
    cases = [("l <= 3", lambda l: l <= 3, 3), ("l < 3", lambda l: l < 3, 2), ("2 <= l < 5", lambda l: (l >= 2) & (l < 5), 4),
             ("l == 3", lambda l: l == 3, 3), ("l >= 2", lambda l: l >= 2, 6), ("every level", lambda l: l >= 1, 6)]
    for label, pred, want in cases:
        ev = TextEval(tree, fi, {}, {}, funcs)
        construct = "io/utils.py::find_max_amr_level[%s]" % label
        try:
            got = ev.run_function(fi.node, [], {"levelmax": 6, "select": {"level": pred}})
        except (Unsupported, RaisedInModel) as e:
            run.unresolved(construct, fi.where(), "cannot evaluate on the list model: %s" % e)
            continue
        run.ob(construct, got == want, fi.where(), "levelmax=6, predicate %s -> %r (required %d: the highest accepted level)" % (label, got, want),
               "a level predicate such as %s truncates the tree at the wrong level" % label)


# =============================================================================== C15
def check_definite_reset(run, tree):
    """Reader attributes that Loader.load reads without an `initialized` guard must be assigned on every path of the
    corresponding initialize()."""
    fi = tree.func(LOAD)
    run.analysed(fi)
    readers, kinds = reader_kinds(tree)
    consulted = {}
    for n in walk_no_nested(fi.node):
        if isinstance(n, ast.Attribute) and isinstance(n.value, ast.Subscript) and norm(n.value.value) == "self.readers" and \
                isinstance(const_value(n.value.slice), str) and isinstance(n.ctx, ast.Load):
            key = const_value(n.value.slice)
            parent_is_call = False
            consulted.setdefault((key, n.attr), n)
    state = {k: v for k, v in consulted.items() if k[1] not in ("kind", "initialized", "initialize", "meta", "variables")}
    run.extra["reader_state_consulted_by_load"] = sorted("%s.%s" % k for k in consulted)
    if not state:
        run.holds(LOAD + "::no-unguarded-reader-state", fi.where(), "load() reads no reader state besides kind/initialized", nontrivial=False)
    for (key, attr), node in state.items():
        cls = readers.get(key)
        init = tree.method(cls, "initialize") if cls is not None else None
        construct = "%s.initialize::definitely-assigns[%s]" % (cls.qual if cls else key, attr)
        if init is None:
            run.unresolved(construct, fi.where(node), "initialize not found")
            continue
        run.analysed(init)
        SELF = params(init)[0]
        bad_paths = 0
        total = 0
        for path in enumerate_paths(init.node.body, exc_paths=False):
            if path[-1][1] == "raise":
                continue
            total += 1
            assigned = any(it[0] == "stmt" and isinstance(it[1], ast.Assign) and any(norm(t) == "%s.%s" % (SELF, attr) for t in it[1].targets)
                           for it in path)
            if not assigned:
                bad_paths += 1
        run.ob(construct, bad_paths == 0, init.where(),
               "Loader.load reads readers[%r].%s unconditionally; %d of %d paths through initialize leave it unassigned" % (key, attr, bad_paths, total),
               "a load that returns early from initialize (group switched off) reuses the %s computed for an EARLIER load() call" % attr)


def check_reinitialisation(run, tree):
    for cq in READER_CLASSES:
        ci = tree.cls(cq)
        init = tree.method(ci, "initialize")
        run.analysed(init)
        body = body_wo_doc(init.node)
        SELF = params(init)[0]
        first = norm(body[0]) if body else ""
        run.ob(cq + ".initialize::resets-initialized-first", first == "%s.initialized = False" % SELF, init.where(),
               "first effect of initialize: `%s`" % first[:60],
               "load() with this group switched off, after a load that had it on: the reader still counts as initialised and "
               "its files are read again (rows duplicated / excluded group returned)")
        sel_guard = next((s for s in body if isinstance(s, ast.If) and norm(s.test) == "%s is False" % params(init)[3]), None)
        ok = sel_guard is not None and len(sel_guard.body) == 1 and isinstance(sel_guard.body[0], ast.Return) and sel_guard.body[0].value is None
        run.ob(cq + ".initialize::off-switch", ok, init.where(), "`if select is False: return` present: %s" % ok,
               "a group switched off is loaded anyway (mesh readers must share this guard: the AMR reader is force-added whenever "
               "any mesh reader is active)")
        # True is assigned only at the end, after descriptor_to_variables
        trues = [i for i, s in enumerate(body) if norm(s) == "%s.initialized = True" % SELF]
        d2v = [i for i, s in enumerate(body) if "descriptor_to_variables" in norm(s)]
        run.ob(cq + ".initialize::activated-after-setup", len(trues) == 1 and d2v and trues[0] > max(d2v), init.where(),
               "initialized = True after descriptor_to_variables: %s" % ((trues, d2v),), "a reader without variables is activated", nontrivial=False)


def check_lmax_reset(run, tree):
    fi = tree.func(LOAD)
    body = fi.node.body
    top_assign = [i for i, s in enumerate(body) if isinstance(s, ast.Assign) and norm(s.targets[0]) == "meta['lmax']"]
    first_read = None
    for i, s in enumerate(body):
        for n in ast.walk(s):
            if isinstance(n, ast.Subscript) and norm(n) == "meta['lmax']" and isinstance(n.ctx, ast.Load) and first_read is None:
                first_read = i
    ok = bool(top_assign) and (first_read is None or top_assign[0] < first_read) and norm(body[top_assign[0]].value) == "meta['levelmax']"
    run.ob(LOAD + "::lmax-reset-every-call", ok, fi.where(body[top_assign[0]]) if top_assign else fi.where(),
           "meta['lmax'] = meta['levelmax'] executed unconditionally at the start of every load(): %s" % ok,
           "a level-limited load followed by an unrestricted load on the same dataset: the second load is still truncated at "
           "the first one's level (meta is shared between calls)")


def check_counters(run, tree):
    fi = tree.func(LOAD)
    body = fi.node.body
    check_lmax_reset(run, tree)
    return _check_counters_rest(run, tree, fi, body)


def _check_counters_rest(run, tree, fi, body):
    for key, flag in (("ncells", "do_not_load_amr"), ("nparticles", "do_not_load_cpus")):
        reset = [s for s in walk_no_nested(fi.node) if isinstance(s, ast.Assign) and norm(s.targets[0]) == "meta['%s']" % key and norm(s.value) == "0"]
        g = [(norm(t), pol) for s in reset for t, pol in (guards_of(fi.node, s) or [])]
        ok = len(reset) == 1 and (g == [(flag, False)] or g == [])
        run.ob("%s::%s-reset" % (LOAD, key), ok, fi.where(reset[0]) if reset else fi.where(),
               "meta['%s'] = 0 on the path where %s is false: %s" % (key, flag, g), "counts of an earlier load are added to")
        accs = [s for s in walk_no_nested(fi.node) if isinstance(s, ast.AugAssign) and norm(s.target) == "meta['%s']" % key]
        if accs and reset:
            ok2 = all(s.lineno > reset[0].lineno for s in accs)
            run.ob("%s::%s-reset-before-accumulate" % (LOAD, key), ok2, fi.where(reset[0]), "reset precedes the %d accumulation site(s)" % len(accs),
                   "counts accumulate across calls", nontrivial=False)
    # the two no-reset paths cannot accumulate: lmax = 0 -> no level loop; cpu_list = [] -> no file loop
    z1 = any(norm(s) == "lmax = 0" for s in walk_no_nested(fi.node) if isinstance(s, ast.stmt))
    z2 = any(norm(s) == "cpu_list = []" for s in walk_no_nested(fi.node) if isinstance(s, ast.stmt))
    run.ob(LOAD + "::no-accumulation-without-reset", z1 and z2, fi.where(), "without mesh readers lmax = 0 (%s); without cpu readers cpu_list = [] (%s)" % (z1, z2),
           "cells/particles are counted on a path that did not reset the counter")
    # groups replaced, fresh containers
    rl = tree.func("io/ramses.py::RamsesDataset.load")
    t = [norm(s) for s in walk_no_nested(rl.node) if isinstance(s, ast.stmt)]
    ok = any(x.startswith("for name, group in groups.items()") for x in t) and "self[name] = group" in t
    run.ob("io/ramses.py::RamsesDataset.load::groups-replaced", ok, rl.where(), "each returned group replaces the stored one: %s" % ok,
           "a group from an earlier load is merged with the new one")
    fresh = any(norm(s) == "out = {}" for s in fi.node.body) and any(norm(s) == "out[name] = Datagroup()" for s in walk_no_nested(fi.node) if isinstance(s, ast.stmt))
    run.ob(LOAD + "::fresh-output", fresh, fi.where(), "out = {} and new Datagroup() per group on every call: %s" % fresh, "arrays of an earlier load reappear")
    per_call = any(norm(s).startswith("_select = {reader.kind: {} for reader in self.readers.values()}") for s in fi.node.body)
    run.ob(LOAD + "::selection-rebuilt", per_call, fi.where(), "_select rebuilt from scratch on every call: %s" % per_call, "an earlier selection leaks", nontrivial=False)


# =============================================================================== C04
def check_cpu_list_flow(run, tree):
    fi = tree.func(LOAD)
    run.analysed(fi)
    # evaluate the statements between the readers set-up and the file loop that define cpu_list (D7)
    stmts = [s for s in fi.node.body if any(isinstance(n, ast.Name) and n.id == "cpu_list" and isinstance(n.ctx, ast.Store) for n in ast.walk(s))
             and not isinstance(s, ast.For)]

    class R(Model):
        pass

    class SelfM(Model):
        pass
    for user, amr, no_cpus, want_label in (([3, 5], [1, 2], False, "user"), ([3, 5], None, False, "user"), (None, [1, 2], False, "amr"),
                                            (None, None, False, "all"), ([3], [1], True, "empty"), (None, None, True, "empty")):
        selfm = SelfM()
        r = R()
        r.cpu_list = amr
        selfm.readers = {"amr": r}
        env = {"self": selfm, "cpu_list": user, "meta": {"ncpu": 4, "infile": "x"}, "do_not_load_cpus": no_cpus}
        ev = TextEval(tree, fi, {}, env, {})
        construct = "%s::cpu_list[user=%s, hilbert=%s%s]" % (LOAD, user, amr, ", no cpu readers" if no_cpus else "")
        try:
            ev.exec_block(stmts)
        except (Unsupported, RaisedInModel) as e:
            run.unresolved(construct, fi.where(), "cannot evaluate: %s" % e)
            continue
        got = env["cpu_list"]
        got_l = list(got) if got is not None else None
        want = {"user": user, "amr": amr, "all": [1, 2, 3, 4], "empty": []}[want_label]
        run.ob(construct, got_l == want, fi.where(), "files read: %s (required %s)" % (got_l, want),
               "an explicit cpu_list combined with a position predicate is overridden by the automatic list (cells of unlisted "
               "CPUs are returned)" if want_label == "user" else "the wrong set of CPU files is read")
    loop = [n for n in fi.node.body if isinstance(n, ast.For) and "cpu_list" in norm(n.iter)]
    ok = len(loop) == 1 and norm(loop[0].iter) == "enumerate(cpu_list)"
    run.ob(LOAD + "::file-loop-over-cpu_list", ok, fi.where(loop[0]) if loop else fi.where(), "file loop iterates %s" % (norm(loop[0].iter) if loop else "?"),
           "files outside the list are read", nontrivial=False)
    # AmrReader.initialize assigns cpu_list from hilbert_cpu_list with the right arguments
    ai = tree.func(AMR + ".initialize")
    c = [x for x in calls_in(ai.node) if norm(x.func) == "hilbert_cpu_list"]
    kws = {k.arg: norm(k.value) for k in c[0].keywords} if c else {}
    ok = kws == {"meta": "meta", "scaling": "units['x']", "select": "select", "infofile": "meta['infofile']"}
    st = [s for s in walk_no_nested(ai.node) if isinstance(s, ast.Assign) and c and s.value is c[0]]
    run.ob(AMR + ".initialize::cpu_list-from-hilbert", ok and st and norm(st[0].targets[0]) == "self.cpu_list", ai.where(c[0]) if c else ai.where(),
           "self.cpu_list = hilbert_cpu_list(%s)" % kws, "the pre-selection uses another selection / length scale")


def check_hilbert_cpu_list(run, tree):
    fi = tree.func(HIL + "::hilbert_cpu_list")
    run.analysed(fi)
    # returns None (= all files) on every path that does not compute a box
    for path in enumerate_paths(fi.node.body, loop_unroll=(0, 1)):
        ex = path[-1]
        conds = {norm(it[1]): it[2] for it in path if it[0] == "test"}
        if ex[1] == "return" and ex[2].value is not None:
            ok = conds.get("new_bbox") is True
            if not ok:
                run.violated(HIL + "::hilbert_cpu_list::list-without-box", fi.where(ex[2]), "a CPU list is returned on a path without a positional predicate: %s" % conds,
                             "files are dropped although no position predicate was given")
    tests = [norm(n.test) for n in fi.node.body if isinstance(n, ast.If)]
    run.ob(HIL + "::hilbert_cpu_list::fallbacks", "meta['ordering type'] != 'hilbert'" in tests and "not isinstance(select, dict)" in tests, fi.where(),
           "non-Hilbert ordering and non-dict selections return None (all files): %s" % tests[:3], "another domain decomposition is pre-selected with Hilbert keys")
    # sampled centres and the bounding box pairing
    t = {norm(s) for s in walk_no_nested(fi.node) if isinstance(s, ast.stmt)}
    ok_n = "ncells = 2 ** min(meta['levelmax'], 18)" in t
    ok_h = "half_dxmin = 0.5 * box_size / ncells" in t
    ok_c = any(x.replace(" ", "") == "xyz_centers=Array(values=np.linspace(half_dxmin,box_size-half_dxmin,ncells),unit=scaling.units)" for x in t)
    run.ob(HIL + "::hilbert_cpu_list::sample-centres", ok_n and ok_h and ok_c, fi.where(), "centres (k+1/2)*box/ncells, ncells = 2**min(levelmax,18), with the length unit: %s/%s/%s" % (ok_n, ok_h, ok_c),
           "the predicate is probed at points that are not finest-level cell centres: a box holding one centre is missed")
    ok_start = "start = xyz_centers[inds.min()] - half_dxmin * scaling.units" in t
    ok_end = "end = xyz_centers[inds.max()] + half_dxmin * scaling.units" in t
    run.ob(HIL + "::hilbert_cpu_list::box-pairing", ok_start and ok_end, fi.where(), "box = [centre(min) - half cell, centre(max) + half cell]: %s/%s" % (ok_start, ok_end),
           "the bounding box is shrunk by half a cell: cells at its edge are dropped")
    ok_keys = "bounding_box['{}min'.format(c)] = start._array / box_size" in t and "bounding_box['{}max'.format(c)] = end._array / box_size" in t
    run.ob(HIL + "::hilbert_cpu_list::box-keys", ok_keys, fi.where(), "start -> <c>min, end -> <c>max, normalised by the box size: %s" % ok_keys,
           "min and max swapped / written to another axis")
    loop = [n for n in fi.node.body if isinstance(n, ast.For)]
    ok_loop = len(loop) == 1 and norm(loop[0].iter) == "'xyz'" and any(norm(s) == "key = f'position_{c}'" for s in loop[0].body)
    run.ob(HIL + "::hilbert_cpu_list::axes", ok_loop, fi.where(), "predicates looked up as position_x/y/z: %s" % ok_loop, "an axis predicate is ignored", nontrivial=False)
    c = [x for x in calls_in(fi.node) if norm(x.func) == "_get_cpu_list"]
    kws = {k.arg: norm(k.value) for k in c[0].keywords} if c else {}
    ok = kws.get("lmax") == "meta['lmax']" and kws.get("levelmax") == "meta['levelmax']" and kws.get("ncpu") == "meta['ncpu']" and kws.get("ndim") == "meta['ndim']"
    run.ob(HIL + "::hilbert_cpu_list::get_cpu_list-args", ok, fi.where(c[0]) if c else fi.where(), "_get_cpu_list(%s)" % kws,
           "with a level cap the key stride is computed from the wrong level: the pre-selection collapses to the first file")


def check_get_cpu_list(run, tree):
    fi = tree.func(HIL + "::_get_cpu_list")
    run.analysed(fi)
    t = {norm(s): s for s in walk_no_nested(fi.node) if isinstance(s, ast.stmt)}
    # R7 cube product
    env = {"imin": 10, "imax": 11, "jmin": 20, "jmax": 21, "kmin": 30, "kmax": 31}
    try:
        vals = {}
        for name in ("idom", "jdom", "kdom"):
            st = next(s for s in fi.node.body if isinstance(s, ast.Assign) and is_name(s.targets[0], name))
            vals[name] = TextEval(tree, fi, {}, dict(env), {}).ev(st.value)
        triples = set(zip(vals["idom"], vals["jdom"], vals["kdom"]))
        want = {(i, j, k) for i in (10, 11) for j in (20, 21) for k in (30, 31)}
        run.ob(HIL + "::_get_cpu_list::cube-product", triples == want and len(vals["idom"]) == 8, fi.where(),
               "search cubes: %d distinct of %d (required the 8 corners {imin,imax}x{jmin,jmax}x{kmin,kmax})" % (len(triples), len(vals["idom"])),
               "a selection box straddling a cube boundary on two axes: one neighbouring cube is never searched, its CPUs are dropped")
    except (StopIteration, Unsupported) as e:
        run.unresolved(HIL + "::_get_cpu_list::cube-product", fi.where(), "cannot evaluate idom/jdom/kdom: %s" % e)
    for a, b in (("imax", "imin"), ("jmax", "jmin"), ("kmax", "kmin")):
        run.ob("%s::_get_cpu_list::%s" % (HIL, a), "%s = %s + 1" % (a, b) in t, fi.where(), "%s = %s + 1: %s" % (a, b, "%s = %s + 1" % (a, b) in t),
               "the neighbouring cube is not the adjacent one", nontrivial=False)
    for a, c_ in (("imin", "xmin"), ("jmin", "ymin"), ("kmin", "zmin")):
        ok = "%s = int(%s * maxdom)" % (a, c_) in t
        run.ob("%s::_get_cpu_list::%s" % (HIL, a), ok, fi.where(), "%s = int(%s * maxdom): %s" % (a, c_, ok), "cube index from the wrong axis", nontrivial=False)
    # R8 key-interval truth table
    tests = [n for n in walk_no_nested(fi.node) if isinstance(n, ast.If) and "bound_key[impi]" in norm(n.test)]
    want_tab = {"cpu_min": [False, True, True, False, False], "cpu_max": [False, False, True, True, False]}
    seen = set()
    for n in tests:
        tgt = next((norm(s.targets[0]).split("[")[0] for s in n.body if isinstance(s, ast.Assign)), None)
        if tgt not in want_tab:
            continue
        seen.add(tgt)
        bname = "bounding_min[i]" if tgt == "cpu_min" else "bounding_max[i]"
        got = []
        for b in (5, 10, 15, 20, 25):  # key interval of the cpu is [10, 20)
            ev = TextEval(tree, fi, {"bound_key[impi]": 10, "bound_key[impi + 1]": 20, bname: b}, {}, {})
            try:
                got.append(bool(ev.ev(n.test)))
            except Unsupported as e:
                got.append("?")
        run.ob("%s::_get_cpu_list::interval-test[%s]" % (HIL, tgt), got == want_tab[tgt], fi.where(n),
               "for a cube key below / at lower / inside / at upper / above the CPU's key range: %s (required %s)" % (got, want_tab[tgt]),
               "a cube whose key range starts exactly at a CPU boundary (or ends at one) selects the wrong CPU: the file holding "
               "the cells is dropped")
    for k in want_tab:
        if k not in seen:
            run.violated("%s::_get_cpu_list::interval-test[%s]" % (HIL, k), fi.where(), "test assigning %s not found" % k, "CPU range not computed")
    # union over cubes, inclusive, 1-based
    loop_ok = any(norm(s).startswith("for j in range(cpu_min[i], cpu_max[i] + 1)") for s in walk_no_nested(fi.node) if isinstance(s, ast.For))
    app_ok = "cpu_list.append(j + 1)" in t
    run.ob(HIL + "::_get_cpu_list::cpu-range-union", loop_ok and app_ok, fi.where(), "cpu list = union over cubes of cpu_min..cpu_max inclusive, 1-based: %s/%s" % (loop_ok, app_ok),
           "the last CPU of a range is dropped / numbers are 0-based")
    # bounding_min/max per cube and dkey
    ok_b = "bounding_min[i] = order_min * dkey" in t and "bounding_max[i] = (order_min + 1) * dkey" in t
    run.ob(HIL + "::_get_cpu_list::cube-key-range", ok_b, fi.where(), "cube key range = [order*dkey, (order+1)*dkey): %s" % ok_b, "cube key ranges overlap or leave gaps")
    dk = next((s for tx, s in t.items() if tx.startswith("dkey = ")), None)
    ok_d = dk is not None and norm(dk.value).replace(" ", "") == "(2**(levelmax+1)//maxdom)**ndim"
    run.ob(HIL + "::_get_cpu_list::key-stride", ok_d, fi.where(dk) if dk is not None else fi.where(),
           "dkey = %s (required (2**(levelmax+1)//maxdom)**ndim: the bound keys of the info file are at resolution levelmax+1)" % (norm(dk.value) if dk is not None else "?"),
           "with a level cap (lmax < levelmax) cube keys are on another scale than the bound keys: only the first file is selected")
    hc = [c for c in calls_in(fi.node) if norm(c.func) == "_hilbert3d"]
    ok_h = len(hc) == 1 and [norm(a) for a in hc[0].args] == ["idom[i]", "jdom[i]", "kdom[i]", "bit_length"]
    run.ob(HIL + "::_get_cpu_list::hilbert-call", ok_h, fi.where(hc[0]) if hc else fi.where(), "_hilbert3d(%s)" % ([norm(a) for a in hc[0].args] if hc else "?"),
           "x and y swapped in the key", nontrivial=False)
    bit = "bit_length = lmin - 1" in t and "maxdom = 2 ** bit_length" in t and "lmin = ilevel" in t
    run.ob(HIL + "::_get_cpu_list::cube-level", bit, fi.where(), "bit_length = lmin - 1, maxdom = 2**bit_length: %s" % bit, "cube level inconsistent with the key", nontrivial=False)


def check_bound_key_parse(run, tree):
    fi = tree.func(HIL + "::_read_bound_key")
    run.analysed(fi)
    t = [norm(s) for s in walk_no_nested(fi.node) if isinstance(s, ast.stmt)]
    ok_low = any(x == "bound_key.append(int(float(line[1])))" for x in t) and any(x.startswith("for n in range(ncpu)") for x in t)
    ok_last = any(x == "bound_key.append(int(float(content[starting_line + ncpu - 1].split()[2])))" for x in t)
    run.ob(HIL + "::_read_bound_key", ok_low and ok_last, fi.where(), "ncpu lower bounds + the last upper bound: %s/%s" % (ok_low, ok_last),
           "the key range of the last CPU is open-ended or shifted by one row")


def check_hilbert_table(run, tree):
    """S5 axioms on the state table used by _hilbert3d (curve generated by the checker's own automaton, bit lengths 1..4), then
    the function itself folded over the complete domain of cells for bit lengths 1 and 2 against that automaton."""
    from . import hilbert_folds as hf
    fi = tree.func(HIL + "::_hilbert3d")
    run.analysed(fi)
    lit = hf.find_table(tree, fi)
    if lit is None or None in lit[0] or tuple(lit[1]) != (8, 2, 12):
        run.unresolved(HIL + "::_hilbert3d::state-diagram", fi.where(), "state table (192 integers reshaped to (8,2,12)) not found")
        return
    vals, shape, order, node = lit

    def T(d, s, c):
        if order == "F":
            return vals[d + 8 * (s + 2 * c)]
        return vals[(d * 2 + s) * 12 + c]
    perm_ok = all(sorted(T(d, 1, c) for d in range(8)) == list(range(8)) for c in range(12))
    state_ok = all(0 <= T(d, 0, c) <= 11 for d in range(8) for c in range(12))
    run.ob(HIL + "::_hilbert3d::digit-permutation", perm_ok, fi.where(node), "for every state the output digits are a permutation of 0..7: %s" % perm_ok,
           "two sub-cubes of a cube share a key digit: keys are not unique")
    run.ob(HIL + "::_hilbert3d::states-in-range", state_ok, fi.where(node), "next states within 0..11: %s" % state_ok, "index error / wrong curve")
    reach, todo = {0}, [0]
    while todo:
        c = todo.pop()
        for d in range(8):
            s2 = T(d, 0, c)
            if 0 <= s2 <= 11 and s2 not in reach:
                reach.add(s2)
                todo.append(s2)
    run.ob(HIL + "::_hilbert3d::all-states-reachable", len(reach) == 12, fi.where(node), "%d of 12 states reachable from state 0" % len(reach), "", nontrivial=False)
    if not (perm_ok and state_ok):
        return
    for Lv in (1, 2, 3, 4):
        n = 2 ** Lv
        key_of = {}
        for x in range(n):
            for y in range(n):
                for z in range(n):
                    key_of[hf.automaton_key(T, x, y, z, Lv)] = (x, y, z)
        bij = len(key_of) == n ** 3 and set(key_of) == set(range(n ** 3))
        cont = bij and all(sum(abs(a - b) for a, b in zip(key_of[k], key_of[k + 1])) == 1 for k in range(n ** 3 - 1))
        ends = bij and key_of[0] == (0, 0, 0) and key_of[n ** 3 - 1] == (n - 1, 0, 0)
        run.ob("%s::_hilbert3d::curve[L=%d]" % (HIL, Lv), bij and cont and ends, fi.where(node),
               "2^%d grid: bijection=%s, unit steps=%s, ends at the RAMSES corners=%s" % (Lv, bij, cont, ends),
               "cells receive a key outside their CPU's key interval: the file that holds them is not selected")
    hf.check_hilbert3d_fold(run, tree, T)
