"""Offset-effect rules on the RAMSES readers (D1 over reader state, oracle S1) — shared by C01, C13, C14, C15."""
from __future__ import annotations

import ast

from ..offsets import (OffsetEval, OffDict, SymDict, SymKey, Fmt, Opaque, Obj, Variables, new_shared, make_reader, run_method,
                       Event)
from ..peval import Unsupported, RaisedInModel
from ..poly import Poly, Rat, S, C
from ..source import norm, const_value, walk_no_nested, FuncInfo, ClassInfo, AnalysisError
from ..specs import ramses_layout as L
from .common import is_name, params, calls_in, returns_of

RBD = "io/utils.py::read_binary_data"
LOAD = "io/loader.py::Loader.load"
MESH_READERS = ["io/amr.py::AmrReader", "io/hydro.py::HydroReader", "io/grav.py::GravReader", "io/rt.py::RtReader"]
A1 = "mesh descriptor variables are all of type 'd' (RAMSES writes no other); Reader.step_over relies on it"


def a1(poly):
    """Assumption A1: the generic variable type is 'd' (8 bytes)."""
    return poly.subs({"bs[T]": 8}) if isinstance(poly, Poly) else poly


# =============================================================================== R1 record locator
def check_record_locator(run, tree):
    fi = tree.func(RBD)
    run.analysed(fi)
    keys = "bidnsql"
    for skip_head in (True, False):
        for increment in (True, False):
            for ty in ("i", "d", "b"):
                sh = new_shared()
                off = OffDict(keys)
                for k in keys:
                    off.d[k] = S("o_" + k)
                sh["offsets"] = off
                ev = OffsetEval(tree, fi, {}, sh)
                construct = "%s[%s,skip_head=%s,increment=%s]" % (RBD, ty, skip_head, increment)
                try:
                    ev.invoke(fi, None, [], {"content": Opaque("bytes"), "fmt": Fmt(S("m"), ty, False), "offsets": off,
                                             "skip_head": skip_head, "increment": increment}, None)
                except (Unsupported, RaisedInModel) as e:
                    run.unresolved(construct, fi.where(), "cannot interpret read_binary_data: %s" % e)
                    continue
                evs = sh["events"]
                want_pos = S("o_n") * 8 + (4 if skip_head else 0)
                for k in keys:
                    if k != "n":
                        want_pos = want_pos + S("o_" + k) * L.SIZE[k]
                problems = []
                if len(evs) != 1:
                    problems.append("%d reads" % len(evs))
                else:
                    if not evs[0].pos == want_pos:
                        problems.append("position %r, required %r" % (evs[0].pos, want_pos))
                    if not evs[0].size == S("m") * L.SIZE[ty]:
                        problems.append("size %r, required %r" % (evs[0].size, S("m") * L.SIZE[ty]))
                want = {k: S("o_" + k) for k in keys}
                want["n"] = want["n"] + 1
                if increment:
                    want[ty] = want[ty] + S("m")
                for k in keys:
                    if not off.d[k] == want[k]:
                        problems.append("offsets[%s] becomes %r, required %r" % (k, off.d[k], want[k]))
                run.ob(construct, not problems, fi.where(), "; ".join(problems) or "position = sum(count*size) + 8*records + %d; counters advanced" % (4 if skip_head else 0),
                       "every record after the first %s of type %s is decoded from the wrong bytes" % ("read" if increment else "peek", ty))
    # byte_size table vs Fortran/struct sizes, and the key set of null_offsets
    table = None
    for n in walk_no_nested(fi.node):
        if isinstance(n, ast.Assign) and is_name(n.targets[0], "byte_size") and isinstance(n.value, ast.Dict):
            table = {const_value(k): const_value(v) for k, v in zip(n.value.keys, n.value.values)}
    if table is None:
        run.unresolved(RBD + "::byte_size", fi.where(), "byte_size table not found")
    else:
        for k, sz in list(L.SIZE.items()) + [("n", 8)]:
            if k in ("h", "f", "e"):
                continue
            run.ob("%s::byte_size[%s]" % (RBD, k), table.get(k) == sz, fi.where(), "byte_size[%s] = %r (required %d)" % (k, table.get(k), sz),
                   "records of type %s are mis-sized" % k, nontrivial=False)
    lf = tree.func(LOAD)
    null_keys = None
    for n in walk_no_nested(lf.node):
        if isinstance(n, ast.Assign) and is_name(n.targets[0], "null_offsets") and isinstance(n.value, ast.DictComp):
            it = const_value(n.value.generators[0].iter)
            val = const_value(n.value.value)
            if isinstance(it, str) and val == 0:
                null_keys = it
    ok = null_keys is not None and table is not None and set(null_keys) <= set(table) and set("bidns") <= set(null_keys) and "n" in null_keys
    run.ob(LOAD + "::null_offsets", ok, lf.where(), "offsets reset to zero for keys %r" % null_keys,
           "a counter used by a reader is missing (KeyError) or not reset between files")


# =============================================================================== R2 headers
def spec_positions(spec, subst=None):
    """name -> (start of record, stride) ; and the total length"""
    pos = Poly()
    out = {}
    for nm, ty, cnt, rep in spec:
        out[nm] = (pos, L.record_bytes(ty, cnt), ty, cnt)
        pos = pos + rep * L.record_bytes(ty, cnt)
    if subst:
        out = {k: (v[0].subs(subst), v[1].subs(subst), v[2], v[3].subs(subst)) for k, v in out.items()}
        pos = pos.subs(subst)
    return out, pos


def run_header(tree, cls_qual, nb_pos):
    def decide(text, node):
        if "nboundary" in text and ">" in text:
            return nb_pos
        if "initialized" in text:
            return True
        return None
    ci, selfv, sh = make_reader(tree, cls_qual, True, decide)
    info = SymDict("info")
    m, _ = run_method(tree, ci, selfv, sh, "read_header", [info])
    return ci, m, sh, info


def check_amr_header(run, tree):
    cq = MESH_READERS[0]
    for nb_pos in (False, True):
        label = "nboundary>0" if nb_pos else "nboundary=0"
        try:
            ci, m, sh, info = run_header(tree, cq, nb_pos)
        except (Unsupported, RaisedInModel) as e:
            run.unresolved("%s.read_header[%s]" % (cq, label), "src/osyris/io/amr.py", "cannot interpret: %s" % e)
            continue
        run.analysed(m)
        subst = {"ncoarse": S("nx") * S("ny") * S("nz")}
        if not nb_pos:
            subst["nboundary"] = 0
        pos, total = spec_positions(L.amr_header(nb_pos), subst)
        end = sh["offsets"].position()
        if not nb_pos:
            end = end.subs({"nboundary": 0})
        run.ob("%s.read_header[%s]::end" % (cq, label), end == total, m.where(),
               "header length %r, RAMSES writes %r" % (end, total) if not end == total else "header length = %r bytes" % total,
               "every grid record of the file is decoded from shifted bytes for this header shape")
        seen = set()
        for e in sh["events"]:
            tgt = e.targets[0] if e.targets else ""
            key = None
            if tgt.startswith("nx"):
                key = "nx"
            elif "nboundary" in tgt and "ngridlevel" not in tgt:
                key = "nboundary"
            elif tgt == "noutput":
                key = "noutput"
            elif "dtold" in tgt:
                key = "dtold"
            elif "dtnew" in tgt:
                key = "dtnew"
            elif "ngridlevel" in tgt and tgt.replace(" ", "").startswith("self.meta['ngridlevel'][:info['ncpu']"):
                key = "ngridlevel-cpu"
            elif "ngridlevel" in tgt:
                key = "ngridlevel-boundary"
            elif tgt == "key_size":
                key = "key_size"
            site = e.site[0].where(e.site[1]) if e.site else m.where()
            construct = "%s.read_header[%s]::read@%s" % (cq, label, key or tgt[:30])
            if key is None:
                run.unresolved(construct, site, "a header read is bound to an unknown target %r" % tgt)
                continue
            seen.add(key)
            rec, cnt = L.AMR_HEADER_BINDINGS[key]
            start, stride, ty, rcnt = pos[rec]
            p = e.pos if nb_pos else e.pos.subs({"nboundary": 0})
            if cnt == "marker":
                ok_pos = p == start
                ok_ty = e.fmt.tchar == "i"
                what = "length marker of record %s" % rec
            else:
                ok_pos = p == start + 4
                ok_ty = e.fmt.tchar == ty and (rcnt - e.fmt.mult.subs(subst)).t == {} if cnt != 1 and cnt != 3 else e.fmt.tchar == ty
                what = "payload of record %s" % rec
            run.ob(construct, ok_pos and ok_ty, site,
                   "%s decoded at byte %r as %r; the %s starts at %r" % (tgt[:40], p, e.fmt, what, start + (0 if cnt == "marker" else 4)),
                   "%s is read from another record for some (ncpu, levelmax, nboundary, noutput): %s" % (
                       key, "grid counts per level are garbage, cells of other CPUs/levels are read" if "ngrid" in key else
                       "header fields are garbage"))
        need = {"nx", "nboundary", "noutput", "dtold", "dtnew", "ngridlevel-cpu", "key_size"} | ({"ngridlevel-boundary"} if nb_pos else set())
        for k in sorted(need - seen):
            run.violated("%s.read_header[%s]::read@%s" % (cq, label, k), m.where(), "the header no longer decodes %s" % k, "missing header field")
    # xbound pairing (nx,ny,nz) <-> (0,1,2) with one function shape
    m = tree.func(cq + ".read_header")
    xb = None
    dims = None
    for n in walk_no_nested(m.node):
        if isinstance(n, ast.Assign) and "xbound" in norm(n.targets[0]) and isinstance(n.value, ast.List):
            xb = n
        if isinstance(n, ast.Assign) and isinstance(n.targets[0], (ast.List, ast.Tuple)) and len(n.targets[0].elts) == 3 and dims is None:
            dims = [norm(e) for e in n.targets[0].elts]
    if xb is None or dims is None:
        run.unresolved(cq + ".read_header::xbound", m.where(), "xbound list not found")
    else:
        shapes = []
        ok = len(xb.value.elts) == 3
        for e, d in zip(xb.value.elts, dims):
            names = {x.id for x in ast.walk(e) if isinstance(x, ast.Name)} & set(dims)
            if names != {d}:
                ok = False
            shapes.append(norm(e).replace(d, "N"))
        ok = ok and len(set(shapes)) == 1
        run.ob(cq + ".read_header::xbound", ok, m.where(xb), "xbound = %s for coarse dimensions %s" % (norm(xb.value), dims),
               "a coarse grid with different extents per axis (boundary regions on one axis): one coordinate of every cell is "
               "shifted by a box length")


def check_simple_headers(run, tree):
    for cq, spec, decoded in ((MESH_READERS[1], L.HYDRO_HEADER, {"gamma": "gamma"}), (MESH_READERS[2], L.GRAV_HEADER, {}),
                              (MESH_READERS[3], L.RT_HEADER, {})):
        try:
            ci, m, sh, info = run_header(tree, cq, False)
        except (Unsupported, RaisedInModel) as e:
            run.unresolved("%s.read_header" % cq, "src/osyris/io", "cannot interpret: %s" % e)
            continue
        run.analysed(m)
        pos, total = spec_positions(spec)
        end = sh["offsets"].position()
        run.ob("%s.read_header::end" % cq, end == total, m.where(), "header length %r, RAMSES writes %r" % (end, total),
               "all variables of this file are decoded from shifted bytes")
        for e in sh["events"]:
            tgt = e.targets[0] if e.targets else ""
            rec = next((r for k, r in decoded.items() if k in tgt), None)
            site = e.site[0].where(e.site[1]) if e.site else m.where()
            if rec is None:
                run.unresolved("%s.read_header::read@%s" % (cq, tgt[:20]), site, "unknown header read")
                continue
            start, stride, ty, cnt = pos[rec]
            run.ob("%s.read_header::read@%s" % (cq, rec), e.pos == start + 4 and e.fmt.tchar == ty, site,
                   "%s decoded at byte %r as %r; record starts at %r" % (rec, e.pos, e.fmt, start + 4), "%s is garbage" % rec)


# =============================================================================== R3/R4 skeleton + body
class Skeleton:
    pass


def extract_skeleton(tree):
    """The call protocol of Loader.load: which reader methods are called, in which order, under which loops/guards."""
    fi = tree.func(LOAD)
    sk = Skeleton()
    sk.fi = fi
    cpu_loops = [n for n in fi.node.body if isinstance(n, ast.For) and "cpu_list" in norm(n.iter)]
    if len(cpu_loops) != 1:
        raise AnalysisError("Loader.load: expected one loop over cpu_list")
    sk.cpu_loop = cpu_loops[0]

    def reader_calls(stmts, out, ctx):
        for st in stmts:
            if isinstance(st, ast.For) and norm(st.iter) in ("readers.values()", "readers.items()"):
                rname = st.target.id if isinstance(st.target, ast.Name) else st.target.elts[-1].id
                for sub in st.body:
                    for c in ast.walk(sub):
                        if isinstance(c, ast.Call) and isinstance(c.func, ast.Attribute) and is_name(c.func.value, rname):
                            out.append((c.func.attr, c, list(ctx), sub))
                        if isinstance(c, ast.Assign) and isinstance(c.targets[0], ast.Attribute) and is_name(c.targets[0].value, rname):
                            out.append(("set:" + c.targets[0].attr, c, list(ctx), sub))
                        if isinstance(c, ast.Call) and isinstance(c.func, ast.Attribute) and isinstance(c.func.value, ast.Attribute) and \
                                is_name(c.func.value.value, rname):
                            out.append(("%s.%s" % (c.func.value.attr, c.func.attr), c, list(ctx), sub))
            elif isinstance(st, ast.For):
                reader_calls(st.body, out, ctx + [("for", norm(st.target), norm(st.iter), st)])
            elif isinstance(st, ast.If):
                reader_calls(st.body, out, ctx + [("if", norm(st.test), True, st)])
                reader_calls(st.orelse, out, ctx + [("if", norm(st.test), False, st)])
            elif isinstance(st, ast.With):
                reader_calls(st.body, out, ctx)
    calls = []
    reader_calls(sk.cpu_loop.body, calls, [])
    sk.calls = calls
    return sk


def ctx_text(ctx):
    return [("%s %s in %s" % (c[0], c[1], c[2])) if c[0] == "for" else ("%sif %s" % ("" if c[2] else "not-", c[1])) for c in ctx]


def check_skeleton(run, tree):
    try:
        sk = extract_skeleton(tree)
    except AnalysisError as e:
        run.unresolved(LOAD + "::skeleton", "src/osyris/io/loader.py", str(e))
        return None
    fi = sk.fi
    run.analysed(fi)
    names = [c[0] for c in sk.calls]
    want_order = ["set:bytes", "offsets.update", "read_header", "read_level_header", "read_domain_header", "allocate_buffers",
                  "read_cacheline_header", "read_variables", "make_conditions", "read_footer", "step_over"]
    seq = [n for n in names if n in want_order]
    run.ob(LOAD + "::protocol-order", seq == want_order, fi.where(sk.cpu_loop),
           "reader protocol per file: %s" % seq, "a reader method is called out of order / missing / twice: offsets desynchronise")
    by = {c[0]: c for c in sk.calls}
    req = {
        "read_header": [],
        "read_level_header": ["for ilevel in range(lmax)"],
        "read_domain_header": ["for ilevel in range(lmax)", "for domain in"],
        "allocate_buffers": ["if ncache > 0", "if domain == cpu_num - 1"],
        "read_cacheline_header": ["if ncache > 0", "if domain == cpu_num - 1"],
        "read_variables": ["if ncache > 0", "if domain == cpu_num - 1", "for ind in range(twotondim)"],
        "read_footer": ["if ncache > 0", "if domain == cpu_num - 1"],
        "step_over": ["if ncache > 0", "not-if domain == cpu_num - 1"],
    }
    for mname, need in req.items():
        if mname not in by:
            run.violated("%s::call[%s]" % (LOAD, mname), fi.where(), "reader.%s is never called" % mname, "offsets desynchronise")
            continue
        ctx = ctx_text(by[mname][2])
        missing = [n for n in need if not any(c.startswith(n) for c in ctx)]
        extra_if = [c for c in ctx if c.startswith(("if ", "not-if ")) and not any(c.startswith(n) for n in need)]
        run.ob("%s::call[%s]" % (LOAD, mname), not missing and not extra_if, fi.where(by[mname][1]),
               "called under %s%s" % (ctx, "; missing %s" % missing if missing else ""),
               {"read_variables": "only the cells of grids owned by this CPU (domain == cpu_num - 1) may be read: ghost/boundary copies "
                                  "would be duplicated, or owned cells skipped",
                "step_over": "grids of other domains are not stepped over: all later offsets are wrong"}.get(
                   mname, "reader.%s runs in the wrong loop/guard" % mname))
    # loop bounds
    dom = next((c for c in by.get("read_domain_header", (None, None, []))[2] if c[0] == "for" and c[1] == "domain"), None)
    ok_dom = dom is not None and dom[2].replace(" ", "") in ("range(readers['amr'].meta['nboundary']+meta['ncpu'])",
                                                             "range(meta['ncpu']+readers['amr'].meta['nboundary'])")
    run.ob(LOAD + "::domain-loop", ok_dom, fi.where(dom[3]) if dom else fi.where(), "domain loop over %s" % (dom[2] if dom else "?"),
           "outputs with boundary regions: the boundary grids of each level are not stepped over")
    nc = [s for s in walk_no_nested(sk.cpu_loop) if isinstance(s, ast.Assign) and is_name(s.targets[0], "ncache")]
    ok_nc = len(nc) == 1 and norm(nc[0].value) == "readers['amr'].meta['ngridlevel'][domain, ilevel]"
    run.ob(LOAD + "::ncache", ok_nc, fi.where(nc[0]) if nc else fi.where(), "ncache = %s" % (norm(nc[0].value) if nc else "?"),
           "grid counts taken from another (domain, level) entry")
    lm = [s for s in walk_no_nested(fi.node) if isinstance(s, ast.Assign) and is_name(s.targets[0], "lmax")]
    vals = sorted(norm(s.value) for s in lm)
    run.ob(LOAD + "::level-loop-bound", vals == ["0", "meta['lmax']"], fi.where(), "lmax assigned from %s" % vals,
           "the level loop does not stop at the requested level / reads no level at all")
    # file opened for reader g is generate_fname(..., ftype=g, cpuid=cpu_num)
    fn = [c for c in calls_in(sk.cpu_loop) if norm(c.func) == "utils.generate_fname"]
    ok_fn = len(fn) == 1 and {k.arg: norm(k.value) for k in fn[0].keywords}.items() >= {"ftype": "group", "cpuid": "cpu_num"}.items()
    run.ob(LOAD + "::file-name", ok_fn, fi.where(fn[0]) if fn else fi.where(), "file = %s" % (norm(fn[0]) if fn else "?"),
           "a reader decodes the file of another CPU or another kind")
    # read_variables receives cpu_num - 1 as cpuid
    rv = by.get("read_variables")
    if rv:
        a = [norm(x) for x in rv[1].args]
        run.ob(LOAD + "::read_variables-args", a == ["ncache", "ind", "ilevel", "cpu_num - 1", "meta"], fi.where(rv[1]), "read_variables(%s)" % ", ".join(a),
               "cells labelled with the wrong cpu / level / child index")
    return sk


def method_effect(tree, cls_qual, mname, args, read_mode, decide=None):
    ci, selfv, sh = make_reader(tree, cls_qual, read_mode, decide)
    m, _ = run_method(tree, ci, selfv, sh, mname, args)
    return m, sh


def compose_block(tree, cls_qual, read_mode):
    """Owner-mode effect of one (level, domain) block for one reader class, following Loader.load's protocol:
    allocate_buffers, read_cacheline_header, twotondim x read_variables, read_footer.  Returns (shared state)."""
    ci, selfv, sh = make_reader(tree, cls_qual, read_mode)
    info = SymDict("info")
    nc, ttd, nd = S("ncache"), S("twotondim"), S("ndim")
    run_method(tree, ci, selfv, sh, "allocate_buffers", [nc, ttd])
    run_method(tree, ci, selfv, sh, "read_cacheline_header", [nc, nd])
    # for ind in range(twotondim): read_variables(...)   -- summarised
    off = sh["offsets"]
    before = off.snapshot()
    n_ev = len(sh["events"])
    sh["loops"].append(("ind", ttd))
    try:
        run_method(tree, ci, selfv, sh, "read_variables", [nc, S("ind"), S("ilevel"), S("cpuid"), info])
    finally:
        sh["loops"].pop()
    delta = off.diff(before)
    for k, d in delta.items():
        if "ind" in d.symbols():
            raise Unsupported("read_variables effect depends on the child index")
    bd = off.bytes_of(delta)
    for e in sh["events"][n_ev:]:
        e.pos = e.pos + S("ind") * bd
    off.restore(before)
    for k, d in delta.items():
        off.add(k, ttd * d)
    run_method(tree, ci, selfv, sh, "read_footer", [nc, ttd])
    return sh


def check_bodies(run, tree):
    """C01.R3 / C13.R1: owner mode reproduces the spec body; skip mode and the not-read branch have the same byte effect."""
    run.assume(A1)
    nc, ttd, nd = S("ncache"), S("twotondim"), S("ndim")
    for cq in MESH_READERS:
        short = cq.split("::")[1]
        effects = {}
        for read_mode in (True, False):
            try:
                sh = compose_block(tree, cq, read_mode)
            except (Unsupported, RaisedInModel, AnalysisError) as e:
                run.unresolved("%s::owner-block[read=%s]" % (cq, read_mode), "src/osyris/io", "cannot interpret: %s" % e)
                continue
            effects[read_mode] = sh
        if True not in effects or False not in effects:
            continue
        for f in effects[True]["functions"]:
            run.functions.add(f)
        pos_r = a1(effects[True]["offsets"].position())
        pos_s = a1(effects[False]["offsets"].position())
        run.ob("%s::read-vs-not-read" % cq, pos_r == pos_s, "src/osyris/io",
               "bytes consumed with every variable read: %r; with every variable skipped: %r" % (pos_r, pos_s),
               "loading a subset of variables shifts every variable that follows a skipped one")
        # skip mode
        try:
            m, shs = method_effect(tree, cq, "step_over", [nc, ttd, nd], True)
            pos_k = a1(shs["offsets"].position())
        except (Unsupported, RaisedInModel) as e:
            run.unresolved("%s.step_over" % cq, "src/osyris/io", "cannot interpret: %s" % e)
            continue
        run.analysed(m)
        run.ob("%s.step_over::same-bytes-as-reading" % cq, pos_k == pos_r, m.where(),
               "step_over advances %r bytes; reading the block advances %r" % (pos_k, pos_r),
               "files holding grids of other domains (ncpu > 1, or boundary regions): every block after the first foreign one "
               "is decoded from shifted bytes")
        # spec
        spec = L.AMR_BODY if short == "AmrReader" else L.VAR_BODY
        pos, total = spec_positions(spec)
        run.ob("%s::owner-block-length" % cq, pos_r == total, "src/osyris/io",
               "block length %r, RAMSES writes %r" % (pos_r, total), "grids are decoded from shifted bytes")
        for e in effects[True]["events"]:
            tgt = e.targets[0] if e.targets else ""
            site = e.site[0].where(e.site[1]) if e.site else ""
            p = a1(e.pos)
            if short == "AmrReader":
                if "xg" in tgt:
                    start, stride, ty, cnt = pos["xg"]
                    want = start + 4 + S("n") * stride
                    rec = "xg"
                elif "son" in tgt:
                    start, stride, ty, cnt = pos["son"]
                    want = start + 4 + S("ind") * stride
                    rec = "son"
                else:
                    run.unresolved("%s::read@%s" % (cq, tgt[:20]), site, "unknown read in the grid block")
                    continue
            else:
                start, stride, ty, cnt = pos["var"]
                want = start + 4 + (S("ind") * S("nvar") + S("ivar")) * stride
                rec = "var"
            okty = e.fmt.tchar == ty or isinstance(e.fmt.tchar, SymKey)
            run.ob("%s::read@%s" % (cq, rec), p == want and okty and e.fmt.mult == cnt, site,
                   "%s decoded at byte %r (%r); RAMSES stores record %s at %r" % (tgt[:30], p, e.fmt, rec, want),
                   "%s values are taken from another record (another child cell / variable / axis)" % rec)
    # domain headers
    for cq in MESH_READERS:
        try:
            m, sh = method_effect(tree, cq, "read_domain_header", [], True)
        except (Unsupported, RaisedInModel) as e:
            run.unresolved("%s.read_domain_header" % cq, "src/osyris/io", "cannot interpret: %s" % e)
            continue
        want = Poly() if cq.endswith("AmrReader") else spec_positions(L.DOMAIN_HEADER)[1]
        got = sh["offsets"].position()
        run.ob("%s.read_domain_header" % cq, got == want, m.where(), "advances %r bytes; RAMSES writes %r per (level, domain)" % (got, want),
               "every (level, domain) block after the first is decoded from shifted bytes")


# =============================================================================== particles
def check_part_header(run, tree, only_read_vs_skip=False):
    cq = "io/part.py::PartReader"
    res = {}
    for read_mode in (True, False):
        def decide(text, node):
            if "initialized" in text:
                return True
            return None
        try:
            ci, selfv, sh = make_reader(tree, cq, read_mode, decide)
            info = SymDict("info")
            m, _ = run_method(tree, ci, selfv, sh, "read_header", [info])
            res[read_mode] = (m, sh, info)
        except (Unsupported, RaisedInModel) as e:
            run.unresolved("%s.read_header[read=%s]" % (cq, read_mode), "src/osyris/io/part.py", "cannot interpret: %s" % e)
    if True not in res or False not in res:
        return
    m, sh, info = res[True]
    run.analysed(m)
    if only_read_vs_skip:
        d_r = res[True][1]["offsets"].snapshot()
        d_s = res[False][1]["offsets"].snapshot()
        same = all((d_r.get(k, Poly()) - d_s.get(k, Poly())).t == {} for k in set(d_r) | set(d_s))
        run.ob(cq + ".read_header::read-vs-skip", same, m.where(), "counters after reading every variable %s after skipping every variable" % (
            "equal those" if same else "DIFFER from those"), "omitting a particle variable shifts the ones that follow")
        return
    evs = sh["events"]
    fixed, total_fixed = spec_positions(L.PART_HEADER_FIXED)
    # nparticles from the third record
    e_np = [e for e in evs if e.targets and e.targets[0] == "nparticles"]
    ok = len(e_np) == 1 and e_np[0].pos == fixed["npart"][0] + 4 and e_np[0].fmt.tchar == "i"
    run.ob(cq + ".read_header::npart", ok, m.where(), "nparticles decoded at byte %r (record npart payload at %r)" % (
        e_np[0].pos if e_np else "?", fixed["npart"][0] + 4), "the particle count is taken from another header field")
    # five opaque records skipped by their own length
    marks = [e for e in evs if e.targets and e.targets[0].startswith("nbytes")]
    lens = []
    ok = len(marks) == len(L.PART_OPAQUE)
    pos = total_fixed
    detail = []
    for k, e in enumerate(marks):
        if not e.pos == pos:
            ok = False
            detail.append("marker %d read at %r, record starts at %r" % (k, e.pos, pos))
        sym = S("nbytes#%d" % k)
        pos = pos + sym + 8
    run.ob(cq + ".read_header::opaque-records-skipped-by-length", ok, m.where(),
           "; ".join(detail) or "%d records (%s) skipped using their own length markers" % (len(marks), ", ".join(L.PART_OPAQUE)),
           "a particle file whose header records have a non-default size (8-byte integers, another seed length): every "
           "particle variable is read from a shifted offset")
    # the variable records start right after
    ve = [e for e in evs if not e.targets or not (e.targets[0].startswith("nbytes") or e.targets[0] == "nparticles")]
    if len(marks) == len(L.PART_OPAQUE) and ve:
        want = pos + 4 + S("ivar") * (S("nparticles") * S("bs[T]") + 8)
        e = ve[0]
        run.ob(cq + ".read_header::variable-records", e.pos == want and e.fmt.mult == S("nparticles") and isinstance(e.fmt.tchar, SymKey), m.where(),
               "variable ivar decoded at %r as %r (required %r, nparticles items of its descriptor type)" % (e.pos, e.fmt, want),
               "particle columns are decoded with the wrong type or from the wrong record")
    # read vs skip
    d_r = res[True][1]["offsets"].snapshot()
    d_s = res[False][1]["offsets"].snapshot()
    same = all((d_r.get(k, Poly()) - d_s.get(k, Poly())).t == {} for k in set(d_r) | set(d_s))
    run.ob(cq + ".read_header::read-vs-skip", same, m.where(), "counters after reading every variable %s after skipping every variable" % (
        "equal those" if same else "DIFFER from those"), "omitting a particle variable shifts the ones that follow")
    # nparticles accumulated once per file
    acc = [n for n in walk_no_nested(m.node) if isinstance(n, ast.AugAssign) and norm(n.target) == "%s['nparticles']" % params(m)[1]]
    ok = len(acc) == 1 and norm(acc[0].value) == "nparticles" and acc[0] in m.node.body
    run.ob(cq + ".read_header::nparticles-accumulated-once", ok, m.where(), "%d accumulation statements at top level" % len(acc),
           "meta['nparticles'] counted per variable instead of per file")
