"""Helpers shared by the rule modules."""
from __future__ import annotations

import ast

from ..source import AnalysisError, ClassInfo, FuncInfo, norm, const_value, walk_no_nested
from ..flow import enumerate_paths, iter_stmts


def params(fi):
    a = fi.node.args
    return [x.arg for x in a.posonlyargs + a.args]


def body_wo_doc(fnode):
    body = list(fnode.body)
    if body and isinstance(body[0], ast.Expr) and isinstance(body[0].value, ast.Constant) and isinstance(
            body[0].value.value, str):
        body = body[1:]
    return body


def single_return(fi):
    """The expression of a function whose body is a single `return expr` (after the docstring), else None."""
    body = body_wo_doc(fi.node)
    if len(body) == 1 and isinstance(body[0], ast.Return) and body[0].value is not None:
        return body[0].value
    return None


def is_name(node, ident):
    return isinstance(node, ast.Name) and node.id == ident


def bind_call(callee_node, call):
    """Map the arguments of `call` to the parameters of callee (FunctionDef).  Returns (bound, extra_kw, star)
    where bound: name -> ast expr (defaults filled in), extra_kw: keywords absorbed by **kwargs,
    star: True if *args/**kw unpacking prevents an exact binding."""
    a = callee_node.args
    names = [x.arg for x in a.posonlyargs + a.args]
    bound, extra = {}, {}
    star = False
    pos = list(call.args)
    for i, arg in enumerate(pos):
        if isinstance(arg, ast.Starred):
            star = True
            break
        if i < len(names):
            bound[names[i]] = arg
        else:
            star = star or (a.vararg is None)
    kwonly = [x.arg for x in a.kwonlyargs]
    for k in call.keywords:
        if k.arg is None:
            star = True
            extra["**"] = k.value
        elif k.arg in names or k.arg in kwonly:
            bound[k.arg] = k.value
        else:
            extra[k.arg] = k.value
    defaults = a.defaults
    for nm, d in zip(names[len(names) - len(defaults):], defaults):
        bound.setdefault(nm, d)
    for nm, d in zip(kwonly, a.kw_defaults):
        if d is not None:
            bound.setdefault(nm, d)
    return bound, extra, star


def calls_in(node):
    return [n for n in walk_no_nested(node) if isinstance(n, ast.Call)] + (
        [node] if isinstance(node, ast.Call) else [])


def attr_chain(node):
    """('self','_array','copy') for self._array.copy ; None if not a pure Name/Attribute chain."""
    parts = []
    while isinstance(node, ast.Attribute):
        parts.append(node.attr)
        node = node.value
    if isinstance(node, ast.Name):
        parts.append(node.id)
        return tuple(reversed(parts))
    return None


def root_name(node):
    """The Name at the root of an Attribute/Subscript/Call-receiver chain, or None."""
    while True:
        if isinstance(node, ast.Attribute):
            node = node.value
        elif isinstance(node, ast.Subscript):
            node = node.value
        elif isinstance(node, ast.Starred):
            node = node.value
        else:
            break
    return node.id if isinstance(node, ast.Name) else None


def returns_of(fnode):
    return [n for n in walk_no_nested(fnode) if isinstance(n, ast.Return)]


def stores_in(fnode):
    """All store targets (Assign/AugAssign/AnnAssign/Delete/for/with targets) in a function, not nested defs."""
    out = []
    for n in walk_no_nested(fnode):
        if isinstance(n, ast.Assign):
            for t in n.targets:
                out.append((t, n))
        elif isinstance(n, (ast.AugAssign, ast.AnnAssign)):
            out.append((n.target, n))
        elif isinstance(n, ast.Delete):
            for t in n.targets:
                out.append((t, n))
    return out


def flatten_targets(t):
    if isinstance(t, (ast.Tuple, ast.List)):
        for e in t.elts:
            yield from flatten_targets(e)
    elif isinstance(t, ast.Starred):
        yield from flatten_targets(t.value)
    else:
        yield t


def conj_terms(test):
    """Top-level conjuncts of a boolean expression (a and b and c -> [a,b,c])."""
    if isinstance(test, ast.BoolOp) and isinstance(test.op, ast.And):
        out = []
        for v in test.values:
            out.extend(conj_terms(v))
        return out
    return [test]


# ------------------------------------------------------------------ local copy propagation
import copy as _copy


def alias_env(fnode):
    """name -> expression for locals assigned exactly once (anywhere) from a pure Name/Attribute chain whose root is a
    parameter that is itself never re-bound.  Used to see through `shape = value.shape` style aliases."""
    counts, values = {}, {}
    pnames = {a.arg for a in fnode.args.posonlyargs + fnode.args.args + fnode.args.kwonlyargs}
    rebound = set()
    for n in walk_no_nested(fnode):
        tg = []
        if isinstance(n, ast.Assign):
            tg = [x for t in n.targets for x in flatten_targets(t)]
        elif isinstance(n, (ast.AugAssign, ast.AnnAssign)):
            tg = [n.target]
        elif isinstance(n, (ast.For, ast.AsyncFor)):
            tg = list(flatten_targets(n.target))
        elif isinstance(n, ast.comprehension):
            tg = list(flatten_targets(n.target))
        for t in tg:
            if isinstance(t, ast.Name):
                counts[t.id] = counts.get(t.id, 0) + 1
                if t.id in pnames:
                    rebound.add(t.id)
                if isinstance(n, ast.Assign) and len(n.targets) == 1 and n.targets[0] is t:
                    values[t.id] = n.value
    env = {}
    for name, c in counts.items():
        if c == 1 and name in values and name not in pnames:
            v = values[name]
            ch = attr_chain(v)
            if ch is not None and ch[0] in pnames and ch[0] not in rebound:
                env[name] = v
    return env


class _Subst(ast.NodeTransformer):
    def __init__(self, env):
        self.env = env

    def visit_Name(self, node):
        if isinstance(node.ctx, ast.Load) and node.id in self.env:
            return _copy.deepcopy(self.env[node.id])
        return node


def subst(expr, env):
    if not env:
        return expr
    return ast.fix_missing_locations(_Subst(env).visit(_copy.deepcopy(expr)))
