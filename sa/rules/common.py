"""Helpers shared by the rule modules."""
from __future__ import annotations

import ast



def params(fi):
    a = fi.node.args
    return [x.arg for x in a.posonlyargs + a.args]


def body_wo_doc(fnode):
    body = list(fnode.body)
    if body and isinstance(body[0], ast.Expr) and isinstance(body[0].value, ast.Constant) and isinstance(
            body[0].value.value, str):
        body = body[1:]
    return body


def single_return(fi):
    """The expression of a function whose body is a single `return expr` (after the docstring), else None."""
    body = body_wo_doc(fi.node)
    if len(body) == 1 and isinstance(body[0], ast.Return) and body[0].value is not None:
        return body[0].value
    return None


def is_name(node, ident):
    return isinstance(node, ast.Name) and node.id == ident


def bind_call(callee_node, call):
    """Map the arguments of `call` to the parameters of callee (FunctionDef).  Returns (bound, extra_kw, star)
    where bound: name -> ast expr (defaults filled in), extra_kw: keywords absorbed by **kwargs,
    star: True if *args/**kw unpacking prevents an exact binding."""
    a = callee_node.args
    names = [x.arg for x in a.posonlyargs + a.args]
    bound, extra = {}, {}
    star = False
    pos = list(call.args)
    for i, arg in enumerate(pos):
        if isinstance(arg, ast.Starred):
            star = True
            break
        if i < len(names):
            bound[names[i]] = arg
        else:
            star = star or (a.vararg is None)
    kwonly = [x.arg for x in a.kwonlyargs]
    for k in call.keywords:
        if k.arg is None:
            star = True
            extra["**"] = k.value
        elif k.arg in names or k.arg in kwonly:
            bound[k.arg] = k.value
        else:
            extra[k.arg] = k.value
    defaults = a.defaults
    for nm, d in zip(names[len(names) - len(defaults):], defaults):
        bound.setdefault(nm, d)
    for nm, d in zip(kwonly, a.kw_defaults):
        if d is not None:
            bound.setdefault(nm, d)
    return bound, extra, star
















# ------------------------------------------------------------------ local copy propagation
import copy as _copy






