"""Helpers shared by the rule modules."""
from __future__ import annotations

import ast



def params(fi):
    a = fi.node.args
    return [x.arg for x in a.posonlyargs + a.args]


def body_wo_doc(fnode):
    body = list(fnode.body)
    if body and isinstance(body[0], ast.Expr) and isinstance(body[0].value, ast.Constant) and isinstance(
            body[0].value.value, str):
        body = body[1:]
    return body


def single_return(fi):
    """The expression of a function whose body is a single `return expr` (after the docstring), else None."""
    body = body_wo_doc(fi.node)
    if len(body) == 1 and isinstance(body[0], ast.Return) and body[0].value is not None:
        return body[0].value
    return None


def is_name(node, ident):
    return isinstance(node, ast.Name) and node.id == ident


def bind_call(callee_node, call):
    """Map the arguments of `call` to the parameters of callee (FunctionDef).  Returns (bound, extra_kw, star)
    where bound: name -> ast expr (defaults filled in), extra_kw: keywords absorbed by **kwargs,
    star: True if *args/**kw unpacking prevents an exact binding."""
    a = callee_node.args
    names = [x.arg for x in a.posonlyargs + a.args]
    bound, extra = {}, {}
    star = False
    pos = list(call.args)
    for i, arg in enumerate(pos):
        if isinstance(arg, ast.Starred):
            star = True
            break
        if i < len(names):
            bound[names[i]] = arg
        else:
            star = star or (a.vararg is None)
    kwonly = [x.arg for x in a.kwonlyargs]
    for k in call.keywords:
        if k.arg is None:
            star = True
            extra["**"] = k.value
        elif k.arg in names or k.arg in kwonly:
            bound[k.arg] = k.value
        else:
            extra[k.arg] = k.value
    defaults = a.defaults
    for nm, d in zip(names[len(names) - len(defaults):], defaults):
        bound.setdefault(nm, d)
    for nm, d in zip(kwonly, a.kw_defaults):
        if d is not None:
            bound.setdefault(nm, d)
    return bound, extra, star
















# ------------------------------------------------------------------ local copy propagation
import copy as _copy








# ------------------------------------------------------------------------------------------------------------------------------
# memoised helpers must not hand out mutable objects
_MEMO = ("functools.lru_cache", "functools.cache")
_ALLOC = ("numpy.zeros", "numpy.empty", "numpy.ones", "numpy.full", "numpy.array", "numpy.zeros_like", "numpy.empty_like", "numpy.ones_like",
          "numpy.full_like", "numpy.arange", "numpy.linspace", "numpy.ma.masked_array", "numpy.ma.zeros")


def reachable_functions(tree, entry_quals):
    import ast
    from ..source import FuncInfo, ClassInfo
    seen, todo = {}, [tree.func(q) for q in entry_quals]
    while todo:
        fi = todo.pop()
        if fi is None or fi.qual in seen:
            continue
        seen[fi.qual] = fi
        for n in ast.walk(fi.node):
            if isinstance(n, ast.Call):
                try:
                    c = tree.resolve_call(fi, n)
                except Exception:
                    c = None
                if isinstance(c, FuncInfo):
                    todo.append(c)
                elif isinstance(c, ClassInfo):
                    todo.append(tree.method(c, "__init__"))
    return seen


def check_memoised_results_immutable(run, tree, entry_quals, consequence):
    """A function memoised with functools.lru_cache / functools.cache returns THE SAME object to every caller with equal arguments: when
    that object is an array allocation, a list/dict/set or an instance of a package class, whatever one call writes into it is still there
    in the next call (accumulation buffers that are never zero again, tables that grow)."""
    import ast
    from ..source import ClassInfo
    fns = reachable_functions(tree, entry_quals)
    memo = []
    for fi in fns.values():
        for d in fi.node.decorator_list:
            f = d.func if isinstance(d, ast.Call) else d
            if tree.dotted(fi.module, f) in _MEMO:
                memo.append(fi)
    bad = []
    for fi in memo:
        mutable = {}
        for st in ast.walk(fi.node):
            if isinstance(st, ast.Assign) and len(st.targets) == 1 and isinstance(st.targets[0], ast.Name):
                mutable[st.targets[0].id] = st.value

        def is_mutable(e, depth=0):
            if isinstance(e, (ast.List, ast.Dict, ast.Set, ast.ListComp, ast.DictComp, ast.SetComp)):
                return True
            if isinstance(e, ast.Tuple):
                return any(is_mutable(x, depth) for x in e.elts)
            if isinstance(e, ast.Name) and e.id in mutable and depth < 4:
                return is_mutable(mutable[e.id], depth + 1)
            if isinstance(e, ast.Call):
                d_ = tree.dotted(fi.module, e.func)
                if d_ in _ALLOC:
                    return True
                try:
                    c = tree.resolve_call(fi, e)
                except Exception:
                    c = None
                if isinstance(c, ClassInfo):
                    return True
            return False
        for n in ast.walk(fi.node):
            if isinstance(n, ast.Return) and n.value is not None and is_mutable(n.value):
                bad.append((fi, n))
                break
    # ... and is written to (or handed on to the user) by a caller: a memoised read-only table is fine
    def written_params(callee):
        out = set()
        for n in ast.walk(callee.node):
            tg = []
            if isinstance(n, ast.Assign):
                tg = n.targets
            elif isinstance(n, ast.AugAssign):
                tg = [n.target]
            for t in tg:
                while isinstance(t, (ast.Subscript, ast.Attribute)):
                    if isinstance(t.value, ast.Name):
                        out.add(t.value.id)
                    t = t.value
                if isinstance(n, ast.AugAssign) and isinstance(n.target, ast.Name):
                    out.add(n.target.id)
        return out

    def misused(memo_fi):
        for caller in fns.values():
            names = set()
            for st in ast.walk(caller.node):
                if isinstance(st, ast.Assign) and isinstance(st.value, ast.Call) and tree.resolve_call(caller, st.value) is memo_fi:
                    for t in st.targets:
                        for x in ast.walk(t):
                            if isinstance(x, ast.Name):
                                names.add(x.id)
                elif isinstance(st, ast.Return) and isinstance(st.value, ast.Call) and tree.resolve_call(caller, st.value) is memo_fi:
                    return "%s returns it to its caller" % caller.name
            if not names:
                continue
            if names & written_params(caller):
                return "%s writes into it" % caller.name
            for n in ast.walk(caller.node):
                if isinstance(n, ast.Return) and n.value is not None and any(isinstance(x, ast.Name) and x.id in names for x in ast.walk(n.value)):
                    return "%s returns it" % caller.name
                if isinstance(n, ast.Call):
                    c = tree.resolve_call(caller, n)
                    if isinstance(c, FuncInfo):
                        params = [a.arg for a in c.node.args.posonlyargs + c.node.args.args]
                        wp = written_params(c)
                        for i, a in enumerate(n.args):
                            if isinstance(a, ast.Name) and a.id in names and i < len(params) and params[i] in wp:
                                return "%s hands it to %s, which writes into its parameter %s" % (caller.name, c.name, params[i])
                        for k in n.keywords:
                            if isinstance(k.value, ast.Name) and k.value.id in names and k.arg in wp:
                                return "%s hands it to %s, which writes into its parameter %s" % (caller.name, c.name, k.arg)
        return None
    from ..source import FuncInfo
    bad = [(fi, n, misused(fi)) for fi, n in bad]
    bad = [(fi, n) for fi, n, why in bad if why]
    for fi, n in bad:
        run.violated("%s::memoised-function-returns-a-mutable-object" % fi.qual, fi.where(n),
                     "`%s` is memoised (lru_cache / cache) and returns an array allocation / container / object that its caller writes into or returns: every call with equal arguments gets the same "
                     "object back, still holding what the previous call wrote into it" % fi.name, consequence)
    if not bad:
        run.holds("memoised-helpers-return-immutable-values[%s]" % ", ".join(q.split("::")[-1] for q in entry_quals), "src/osyris",
                  "%d functions reachable, %d memoised, none returns an allocation / container / object" % (len(fns), len(memo)), nontrivial=False)
