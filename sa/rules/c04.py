"""C04 — selective loading equals filtering the full load (CPU pre-selection is sound)."""
from __future__ import annotations

from . import loader_rules as lr

EXPLANATION = "(R1) the 8x2x12 state table used by _hilbert3d satisfies the automaton axioms (digit permutation per state, states in range and reachable) and generates, in the checker's own automaton, a bijective unit-step curve with the RAMSES end points for bit lengths 1-4; _hilbert3d interpreted on the COMPLETE domain of cells for bit lengths 1 and 2 equals that automaton (bit/slot roles); (R3) Loader.load fold: cells selected with the conjunction of every reader's conditions incl. the leaf flags; leaf rule; predicates applied to unit-carrying buffers; (R5) Loader.load fold: Hilbert list used when no explicit list, explicit list wins, no files without cpu readers; hilbert_cpu_list over abstract predicates (symbolic first/last selected centre): box = [first centre - half cell, last centre + half cell] per axis, early exits return None; (R6) _read_bound_key on token lines; _get_cpu_list over every order type of a cube key range against the cpu key intervals, box size classes, the 8-corner cube product and the key stride with and without a level cap. (R3) every predicate is applied once to the unit-carrying buffer of its own variable under keys that survive the Loader's merge; (R6) the bound-key parser re-reads a path whose contents changed (memo decorators are modelled); (R7) a selective load starts from empty pieces (shared). (R8) find_max_amr_level returns the largest accepted level; (R9) memoised functions read only their arguments; the Hilbert key is an unbounded integer; the CPU pre-selection is recomputed when only the level cap changes. R5 also checks what the position predicates are evaluated on: the centres of the finest cells across boxlen x unit_l. (R10) the AMR reader's file list is reset at every (re)initialisation (shared with C15.R2); R5 includes an explicit empty cpu_list; undecided tests of the loader are explored both ways."
NOT_DECIDED = 'bit lengths above 2 for the function itself (bounded fold; the table axioms cover 1-4); conservativeness of the box-to-cube reduction for all boxes; non-Hilbert orderings (fall back to all files)'
TRUSTED = ('CPython ast', 'RAMSES key convention (bound keys at resolution levelmax+1)', 'the interpreter sa/models.py')
TECHNIQUE = 'static analysis: table axioms, complete-finite-domain folding (order types, small bit lengths), abstract interpretation over symbolic predicates'

from . import loader_folds as lfold
from . import hilbert_folds as hf
from . import layout_folds as lay


def r1(run, tree):
    run.rule("C04.R1", "Hilbert automaton axioms; slot and bit roles", "S5 axioms on the extracted literal", "S5", floor=9)
    lr.check_hilbert_table(run, tree)


def r3(run, tree):
    run.rule("C04.R3", "every user predicate is applied once to the unit-carrying buffer of its own variable, the entries of all readers survive the Loader's merge, and the Loader ANDs them with the leaf mask into the one selection used for every variable", "D7 folds of Loader.load (recording readers) and of the readers' make_conditions", "", floor=4)
    lfold.check_load(run, tree)
    lay.check_leaf_rule(run, tree)



def r5(run, tree):
    run.rule("C04.R5", "cpu_list flow", "D7 + path rule", "", floor=7)
    lfold.check_load(run, tree)
    hf.check_hilbert_cpu_list_fold(run, tree)


def r6(run, tree):
    run.rule("C04.R6", "bound keys, search cubes, key-interval truth tables, key stride", "D7 ordering tables + formulas", "", floor=4)
    hf.check_bound_key_parse(run, tree)
    hf.check_get_cpu_list_fold(run, tree)


def r7_fresh_pieces(run, tree):
    run.rule("C04.R7", "a selective load returns rows of THIS load only: every (re)initialisation of a reader starts each variable from empty pieces, and "
             "the Loader concatenates exactly the pieces of the current traversal (shared with C12/C13/C15)", "D7 folds of Reader.descriptor_to_variables (with records of a previous load present) and of Loader.load (two-load history)", "", floor=8)
    from . import io_folds as iof
    from . import loader_folds as lfold
    iof.check_descriptor_to_variables(run, tree)
    lfold.check_load(run, tree)


def r8_level_cap(run, tree):
    run.rule("C04.R8", "a level predicate with a lower bound (level >= k, level == k) still descends to the highest accepted level: find_max_amr_level returns the largest accepted level, "
             "not the number of accepted levels (shared with C12.R3)", "D7 fold of io/utils.py::find_max_amr_level on a list model", "", floor=6)
    from . import io_folds as iof
    iof.check_find_max_level(run, tree)


def r_memo(run, tree):
    run.rule("C04.R9", "no memoised function on the loading path reads the environment (directory listings, files, clock): which output is the last one, and what a file holds, is looked up at every load",
             "effect rule over the resolved call graph (functools.lru_cache / cache) with a positive fixture", "", floor=1)
    from .memo_rules import check_memoised_functions
    check_memoised_functions(run, tree, modules=("io/", "config/", "units/", "core/dataset"))


def r10_reader_state(run, tree):
    run.rule("C04.R10", "the CPU pre-selection a load uses is the one computed for THIS load: every (re)initialisation of the AMR reader resets the file list it carries "
             "(a list remembered from an earlier selection would drop files that hold qualifying cells; shared with C15.R2)", "D7 history fold of reader.initialize (on / off / files gone)", "", floor=1)
    from . import io_folds as iof
    iof.check_reader_initialize(run, tree)


RULES = [r1, r3, r5, r6, r7_fresh_pieces, r8_level_cap, r_memo, r10_reader_state]


def t_load_space(run, tree):
    run.rule("C04.T1", "thorough: Loader.load folded over 324 scenarios (ndim 1-3 x ncpu 1-3 x levelmax 2-4 x nboundary 0-2 x level predicate x explicit cpu_list, with empty blocks) "
             "and compared with the traversal specification", "D7 fold of Loader.load over recording readers", "S1 traversal", floor=3)
    lfold.check_load_space(run, tree)


THOROUGH_RULES = [t_load_space]
