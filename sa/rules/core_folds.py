"""Fold-based rules on core/vector.py, core/datagroup.py, core/dataset.py (ModelEval over ArrTok leaves).

These replace normalised-text pattern rules: the repository's own methods are interpreted, so helper extraction, loops
instead of comprehensions, renamed locals etc. are followed by construction."""
from __future__ import annotations

import ast

from ..models import ModelEval, PyObj, Marker, Raised
from ..peval import Model, Unsupported, ProgramRaised
from ..source import AnalysisError
from .core_models import BoolList, slice_key, ArrTok, RawTok, NdTok, QtyTok, core_hooks, make_vector, vector_components, VECTOR_Q, DG_Q, DS_Q
from .vector_rules import FORWARDED

ERR = (Unsupported, AnalysisError)


def _ev(tree, hooks, qual=VECTOR_Q + ".__init__"):
    return ModelEval(tree, tree.func(qual), {}, hooks)


def call_method(tree, hooks, obj, name, *args, **kwargs):
    ev = _ev(tree, hooks)
    m = tree.method(obj._cls, name)
    if m is None:
        raise Raised("AttributeError", None, "%s has no method %s" % (obj._cls.name, name))
    return ev.invoke(m, [obj] + list(args), kwargs, None)


# =============================================================================== Vector lifting
def check_vector_lifting(run, tree, dunders=FORWARDED, want_kinds=True):
    hooks = core_hooks()
    vi = tree.cls(VECTOR_Q)
    for d in dunders:
        construct = "%s.%s" % (VECTOR_Q, d)
        if tree.method(vi, d) is None:
            run.violated(construct, "src/osyris/core/vector.py", "%s is not defined on Vector" % d, "v %s w" % d)
            continue
        problems = []
        unresolved = None
        try:
            for n in (1, 2, 3):
                L, _ = make_vector(tree, {c: "L." + c for c in "xyz"[:n]}, hooks=hooks)
                R, _ = make_vector(tree, {c: "R." + c for c in "xyz"[:n]}, unit="w", hooks=hooks)
                rhss = [("Vector", R, lambda c: "R." + c)]
                if want_kinds:
                    rhss += [("number", 2.0, lambda c: ("num", 2.0)), ("ndarray", NdTok(), lambda c: "nd"),
                             ("Quantity", QtyTok(), lambda c: ("magnitude", "q")), ("Array", ArrTok("A", "w"), lambda c: "A")]
                for kind, rhs, want_r in rhss:
                    # a fresh left operand per case: the in-place operators update its components
                    L, _ = make_vector(tree, {c: "L." + c for c in "xyz"[:n]}, hooks=hooks)
                    try:
                        res = call_method(tree, hooks, L, d, rhs)
                    except Raised as e:
                        problems.append("%d-component Vector %s %s raises %s" % (n, d, kind, e.name))
                        continue
                    if not (isinstance(res, PyObj) and res._cls.qual == VECTOR_Q):
                        problems.append("%s with a %s returns %r" % (d, kind, res))
                        continue
                    comps = vector_components(tree, res, hooks)
                    want = {c: ("op", d, "L." + c, want_r(c)) for c in "xyz"[:n]}
                    got = {c: a.origin for c, a in comps.items()}
                    if got != want:
                        problems.append("%d components, rhs %s: result %s, required %s" % (n, kind, got, want))
        except ERR as e:
            unresolved = str(e)
        if unresolved:
            run.unresolved(construct, "src/osyris/core/vector.py", "cannot fold: %s" % unresolved)
            continue
        run.ob(construct, not problems, tree.method(vi, d).where(), "; ".join(problems[:3]) or
               "applies %s to every component pair, numbers/ndarrays/Quantities/Arrays broadcast to all components" % d,
               "v %s w acts on a subset of the components, pairs x with y, applies another operator%s" % (
                   d, " or rebinds v so that other references do not see the update" if d.startswith("__i") else ""))
    # component-count gate
    bad = []
    try:
        for n in (1, 2, 3):
            for m in (1, 2, 3):
                if n == m:
                    continue
                L, _ = make_vector(tree, {c: "L." + c for c in "xyz"[:n]}, hooks=hooks)
                R, _ = make_vector(tree, {c: "R." + c for c in "xyz"[:m]}, hooks=hooks)
                try:
                    res = call_method(tree, hooks, L, "__add__", R)
                    bad.append("%d-component + %d-component is accepted" % (n, m))
                except Raised as e:
                    if e.name != "ValueError":
                        bad.append("%d + %d components raises %s instead of ValueError" % (n, m, e.name))
        run.ob(VECTOR_Q + "::component-count-gate", not bad, "src/osyris/core/vector.py", "; ".join(bad[:3]) or
               "operands with different numbers of components are rejected with ValueError (all 6 pairings)",
               "a 1-component Vector combined with a 2-component one silently drops a component")
    except ERR as e:
        run.unresolved(VECTOR_Q + "::component-count-gate", "src/osyris/core/vector.py", "cannot fold: %s" % e)


def check_vector_unary_and_maps(run, tree):
    hooks = core_hooks()
    cases = [("__neg__", [], lambda c: ("op", "__neg__", "L." + c, None)),
             ("__pow__", [3], lambda c: ("op", "__pow__", "L." + c, 3)),
             ("to", ["km"], lambda c: ("to", "L." + c, "km")),
             ("copy", [], lambda c: ("copy", "L." + c)),
             ("reshape", [3, 1], lambda c: ("reshape", "L." + c)),
             ("__getitem__", [slice(1, 3, None)], lambda c: ("idx", "L." + c, slice_key((3,), slice(1, 3, None)))),
             ("__getitem__", [slice(None, None, -1)], lambda c: ("idx", "L." + c, slice_key((3,), slice(None, None, -1)))),
             ("__getitem__", [slice(-2, None, -1)], lambda c: ("idx", "L." + c, slice_key((3,), slice(-2, None, -1)))),
             ("__getitem__", [slice(None, None, 2)], lambda c: ("idx", "L." + c, slice_key((3,), slice(None, None, 2)))),
             ("__getitem__", [1], lambda c: ("idx", "L." + c, 1))]
    vi = tree.cls(VECTOR_Q)
    for name, args, want_f in cases:
        construct = "%s.%s::every-component" % (VECTOR_Q, name) + ("[%s]" % (args[0],) if name == "__getitem__" else "")
        if tree.method(vi, name) is None:
            run.violated(construct, "src/osyris/core/vector.py", "%s not defined" % name, "v.%s" % name)
            continue
        problems = []
        try:
            for n in (1, 2, 3):
                L, _ = make_vector(tree, {c: "L." + c for c in "xyz"[:n]}, hooks=hooks)
                res = call_method(tree, hooks, L, name, *args)
                if not (isinstance(res, PyObj) and res._cls.qual == VECTOR_Q):
                    problems.append("returns %r" % (res,))
                    continue
                got = {c: a.origin for c, a in vector_components(tree, res, hooks).items()}
                want = {c: want_f(c) for c in "xyz"[:n]}
                if got != want:
                    problems.append("%d components: %s, required %s" % (n, got, want))
        except Raised as e:
            problems.append("raises %s" % e)
        except ERR as e:
            run.unresolved(construct, "src/osyris/core/vector.py", "cannot fold: %s" % e)
            continue
        run.ob(construct, not problems, tree.method(vi, name).where(), "; ".join(problems[:2]) or "maps over every component",
               "v.%s treats one component differently from the others" % name)


def check_vector_component_reassigned(run, tree):
    """history: a component of a Vector is assigned after construction (v.x = ..., v.z = ... on a 2-component vector); every later operation
    - indexing, copy, negation, the numpy dispatch, nvec - sees the CURRENT components"""
    hooks = core_hooks()
    vi = tree.cls(VECTOR_Q)
    for label, ncomp, comp in (("x replaced", 3, "x"), ("z replaced", 3, "z"), ("z added to a 2-component vector", 2, "z")):
        construct = "%s::history[%s after construction]" % (VECTOR_Q, label)
        try:
            v, _ = make_vector(tree, {c: "L." + c for c in "xyz"[:ncomp]}, hooks=hooks)
            ev = _ev(tree, hooks)
            vector_components(tree, v, hooks)            # a first access, as any earlier operation would have made
            ev.obj_setattr(v, comp, ArrTok("NEW." + comp, "u", (3,)))
            want_tags = {c: ("NEW." + c if c == comp else "L." + c) for c in sorted(set("xyz"[:ncomp]) | {comp})}
            problems = []
            got = {c: a.origin for c, a in vector_components(tree, v, hooks).items()}
            if got != want_tags:
                problems.append("components seen by the class: %s (required %s)" % (got, want_tags))
            for mname, args, want_f in (("__getitem__", [slice(1, 3, None)], lambda t: ("idx", t, slice_key((3,), slice(1, 3, None)))), ("copy", [], lambda t: ("copy", t)),
                                        ("__neg__", [], lambda t: ("op", "__neg__", t, None))):
                res = call_method(tree, hooks, v, mname, *args)
                got = {c: a.origin for c, a in vector_components(tree, res, hooks).items()} if isinstance(res, PyObj) else res
                want = {c: want_f(t) for c, t in want_tags.items()}
                if got != want:
                    problems.append("v.%s -> %s (required %s)" % (mname, got, want))
            nv = ev.obj_getattr(v, "nvec")
            if nv != len(want_tags):
                problems.append("nvec = %r (required %d)" % (nv, len(want_tags)))
            run.ob(construct, not problems, "src/osyris/core/vector.py", "; ".join(problems[:2]) or "indexing, copy, negation and nvec use the current components",
                   "after v.%s = ... a slice / sort of the group that holds v selects rows of the OLD component (a component table built once at construction)" % comp)
        except (Raised, ProgramRaised) as e:
            run.violated(construct, "src/osyris/core/vector.py", "raises %s" % e, label)
        except ERR as e:
            run.unresolved(construct, "src/osyris/core/vector.py", "cannot fold: %s" % e)


def check_vector_norm_fresh(run, tree):
    """norm reflects the CURRENT components (no stale cache): fold norm, change a component in place, fold again."""
    hooks = core_hooks()
    try:
        L, _ = make_vector(tree, {c: "L." + c for c in "xyz"}, hooks=hooks)
        ev = _ev(tree, hooks)
        n1 = ev.obj_getattr(L, "norm")
        comps = vector_components(tree, L, hooks)
        comps["x"].origin = "L.x'"      # in-place change of the data behind the same component object
        n2 = ev.obj_getattr(L, "norm")
        o1, o2 = getattr(n1, "origin", None), getattr(n2, "origin", None)
        run.ob(VECTOR_Q + ".norm::reflects-current-components", o1 != o2, tree.method(tree.cls(VECTOR_Q), "norm").where(),
               "norm before %r / after an in-place change of x: %r" % (o1, o2),
               "v.norm is cached: after `v.x *= 3` (or `v *= 2` through an alias) the old length is returned — normalisation of a "
               "reused direction vector, Datagroup equality and plots use stale magnitudes")
    except (Raised, ) as e:
        run.violated(VECTOR_Q + ".norm::reflects-current-components", "src/osyris/core/vector.py", "norm raises %s" % e, "v.norm")
    except ERR as e:
        run.unresolved(VECTOR_Q + ".norm::reflects-current-components", "src/osyris/core/vector.py", "cannot fold: %s" % e)


def check_vector_nvec(run, tree):
    hooks = core_hooks()
    try:
        bad = []
        for n in (1, 2, 3):
            L, _ = make_vector(tree, {c: "L." + c for c in "xyz"[:n]}, hooks=hooks)
            got = _ev(tree, hooks).obj_getattr(L, "nvec")
            if got != n:
                bad.append("%d-component Vector reports nvec=%r" % (n, got))
        run.ob(VECTOR_Q + ".nvec", not bad, "src/osyris/core/vector.py", "; ".join(bad) or "nvec = number of components for 1, 2, 3",
               "operands with a different number of components are not rejected (1-D data)")
    except (Raised,) + ERR as e:
        run.unresolved(VECTOR_Q + ".nvec", "src/osyris/core/vector.py", "cannot fold: %s" % e)


# =============================================================================== Datagroup / Dataset histories
def pub(tree, hooks, obj, name):
    """a public attribute read the way client code reads it (properties included), not through the instance dict"""
    try:
        return _ev(tree, hooks, DG_Q + ".__init__").obj_getattr(obj, name)
    except Raised:
        return None


def new_group(tree, hooks):
    ev = _ev(tree, hooks, DG_Q + ".__init__")
    return ev.instantiate(tree.cls(DG_Q), [], {}, None)


def A(tag, n, unit="u"):
    return ArrTok(tag, unit, (n,))


def group_state(tree, hooks, g):
    cont = g._attrs.get("_container")
    if not isinstance(cont, dict):
        raise Unsupported("backing dict of the Datagroup not found")
    return {k: (getattr(v, "origin", None) if not isinstance(v, PyObj) else ("Vector",), getattr(v, "shape", None) if not isinstance(v, PyObj) else None,
                getattr(v, "name", None) if not isinstance(v, PyObj) else v._attrs.get("_name")) for k, v in cont.items()}


def check_datagroup_histories(run, tree):
    """Finite histories over the dictionary operations with members of equal / unequal length."""
    hooks = core_hooks()
    H = []

    def hist(label, family):
        def deco(fn):
            H.append((label, family, fn))
            return fn
        return deco

    @hist("mis-shaped insertion is rejected and leaves the group unchanged",
          "group['b'] = <another length> is accepted, or the rejected value is renamed / the group modified before the error")
    def h1(g, do):
        do("set", "a", A("a", 3))
        before = group_state(tree, hooks, g)
        bad = A("b", 4)
        bad.name = "old-name"
        r = do("set", "b", bad, expect_raise="ValueError")
        return r and group_state(tree, hooks, g) == before and bad.name == "old-name", "state %s" % group_state(tree, hooks, g)

    @hist("stored items are renamed to their key; same-shape insertion accepted", "group['b'] = a keeps the name 'a'")
    def h2(g, do):
        do("set", "a", A("a", 3))
        b = A("b", 3)
        b.name = "zzz"
        do("set", "b", b)
        st = group_state(tree, hooks, g)
        return list(st) == ["a", "b"] and st["b"][2] == "b" and st["a"][2] == "a", "state %s" % st

    @hist("after the last member is removed with del the group accepts any length",
          "set an item, delete the last item, insert an item of another length: rejected although the group is empty (cached shape)")
    def h3(g, do):
        do("set", "a", A("a", 3))
        do("del", "a")
        do("set", "c", A("c", 5))
        return list(group_state(tree, hooks, g)) == ["c"] and call_method(tree, hooks, g, "__len__") == 1, "state %s" % group_state(tree, hooks, g)

    @hist("after the last member is removed with pop the group accepts any length",
          "set an item, pop() the last item, insert an item of another length: rejected although the group is empty (cached shape)")
    def h4(g, do):
        do("set", "a", A("a", 3))
        r = do("pop", "a")
        do("set", "c", A("c", 5))
        return getattr(r, "origin", None) == "a" and list(group_state(tree, hooks, g)) == ["c"], "pop returned %r; state %s" % (r, group_state(tree, hooks, g))

    @hist("after clear the group accepts any length", "clear() then insert another length: rejected")
    def h5(g, do):
        do("set", "a", A("a", 3))
        do("clear")
        do("set", "c", A("c", 5))
        return list(group_state(tree, hooks, g)) == ["c"], "state %s" % group_state(tree, hooks, g)

    @hist("removing the first-inserted member does not disable the gate",
          "pop the first member while others remain, then insert another length: accepted (shape taken from a stale reference key)")
    def h6(g, do):
        do("set", "a", A("a", 3))
        do("set", "b", A("b", 3))
        do("pop", "a")
        r = do("set", "c", A("c", 7), expect_raise="ValueError")
        return r and list(group_state(tree, hooks, g)) == ["b"], "state %s" % group_state(tree, hooks, g)

    @hist("update on an empty group validates every item against the first",
          "update() on an empty group with items of different lengths: all accepted, the group is misaligned")
    def h7(g, do):
        r = do("update", {"a": A("a", 5), "b": A("b", 4)}, expect_raise="ValueError")
        return r, "state %s" % group_state(tree, hooks, g)

    @hist("update on a non-empty group rejects a mis-shaped item", "update() bypasses the gate")
    def h8(g, do):
        do("set", "a", A("a", 3))
        r = do("update", {"b": A("b", 3), "c": A("c", 9)}, expect_raise="ValueError")
        return r and "c" not in group_state(tree, hooks, g), "state %s" % group_state(tree, hooks, g)

    @hist("update / constructor rename and store every item", "Datagroup({'a': x}) does not rename x")
    def h9(g, do):
        do("update", {"a": A("x1", 3), "b": A("x2", 3)})
        st = group_state(tree, hooks, g)
        return st == {"a": ("x1", (3,), "a"), "b": ("x2", (3,), "b")}, "state %s" % st

    @hist("replacing a member keeps the gate", "group['a'] = <another length> while 'b' exists is accepted")
    def h10(g, do):
        do("set", "a", A("a", 3))
        do("set", "b", A("b", 3))
        r = do("set", "a", A("a2", 8), expect_raise="ValueError")
        do("set", "a", A("a3", 3))
        st = group_state(tree, hooks, g)
        return r and st["a"][0] == "a3", "state %s" % st

    @hist("get / keys / values / items / iteration / len / membership agree with the contents", "dictionary protocol disagrees with the stored members")
    def h11(g, do):
        do("set", "a", A("a", 3))
        do("set", "b", A("b", 3))
        ev = _ev(tree, hooks, DG_Q + ".__init__")
        keys = list(call_method(tree, hooks, g, "keys"))
        items = [(k, v.origin) for k, v in call_method(tree, hooks, g, "items")]
        vals = [v.origin for v in call_method(tree, hooks, g, "values")]
        it = ev.iterate(g)
        ln = call_method(tree, hooks, g, "__len__")
        got = call_method(tree, hooks, g, "get", "a", "dflt").origin
        miss = call_method(tree, hooks, g, "get", "zz", "dflt")
        has = ev.contains(g, "a") and not ev.contains(g, "zz")
        ok = keys == ["a", "b"] and items == [("a", "a"), ("b", "b")] and vals == ["a", "b"] and it == ["a", "b"] and ln == 2 and got == "a" and miss == "dflt" and has
        return ok, "keys %s items %s values %s iter %s len %s get %s/%s in %s" % (keys, items, vals, it, ln, got, miss, has)

    @hist("a group whose members have zero rows still has a shape: a member of another length is rejected",
          "after an all-False mask / empty slice the group accepts any length (its shape read as () because an empty member is falsy)")
    def h14(g, do):
        do("set", "a", A("a", 0))
        do("set", "b", A("b", 0))
        r = do("set", "c", A("c", 3), expect_raise="ValueError")
        ok2 = do("set", "d", A("d", 0))
        st = group_state(tree, hooks, g)
        return r and list(st) == ["a", "b", "d"], "state %s" % {k: v[1] for k, v in st.items()}

    @hist("replacing the first-inserted member keeps the gate", "group[first key] = <another length> while other members exist is accepted (the first member used as the reference is excluded from its own check)")
    def h15(g, do):
        do("set", "a", A("a", 5))
        do("set", "b", A("b", 5))
        do("set", "c", A("c", 5))
        r = do("set", "a", A("a2", 3), expect_raise="ValueError")
        return r and {k: v[1] for k, v in group_state(tree, hooks, g).items()} == {"a": (5,), "b": (5,), "c": (5,)}, "state %s" % {k: v[1] for k, v in group_state(tree, hooks, g).items()}

    @hist("layer() hands out the members the group holds NOW: a member replaced under its key (re-centred positions, sorted data) is what the next layer carries",
          "group.layer(k) made after group['position'] = new still carries the old positions ('top'/'side' orientations and maps follow stale data)")
    def h17(g, do):
        lm = tree.method(tree.cls(DG_Q), "layer")
        if lm is None:
            return True, "Datagroup.layer is not defined"
        for k in ("position", "mass", "velocity", "dx", "rho"):
            do("set", k, A(k + "-1", 3))

        def aux_of(layer):
            found = {}
            for v in (layer._attrs.values() if isinstance(layer, PyObj) else []):
                if isinstance(v, dict):
                    for kk, vv in v.items():
                        if kk in ("position", "mass", "velocity", "dx"):
                            found[kk] = getattr(vv, "origin", vv)
            return found
        l1 = call_method(tree, hooks, g, "layer", "rho")
        first = aux_of(l1)
        do("set", "position", A("position-2", 3))
        do("set", "mass", A("mass-2", 3))
        l2 = call_method(tree, hooks, g, "layer", "rho")
        second = aux_of(l2)
        ok = first == {"position": "position-1", "mass": "mass-1", "velocity": "velocity-1", "dx": "dx-1"} and \
            second == {"position": "position-2", "mass": "mass-2", "velocity": "velocity-1", "dx": "dx-1"} and aux_of(l1) == first
        return ok, "first layer carries %s; after replacing position and mass the next layer carries %s" % (first, second)

    @hist("a member of another RANK is rejected even when its leading dimensions match (and a 0-d member in a non-scalar group)",
          "group of (5,) members accepts a (5, 3) or 0-d member / group of (4, 3) members accepts a (4,) member: shapes compared only along the common dimensions")
    def h18(g, do):
        do("set", "a", A("a", 5))
        before = group_state(tree, hooks, g)
        r1 = do("set", "b", ArrTok("b", "u", (5, 3)), expect_raise="ValueError")
        r2 = do("set", "c", ArrTok("c", "u", (5, 1)), expect_raise="ValueError")
        r3 = do("set", "d", ArrTok("d", "u", ()), expect_raise="ValueError")
        g2 = new_group(tree, hooks)
        call_method(tree, hooks, g2, "__setitem__", "a", ArrTok("a", "u", (4, 3)))
        try:
            call_method(tree, hooks, g2, "__setitem__", "b", ArrTok("b", "u", (4,)))
            r4 = False
        except Raised as e:
            r4 = e.name == "ValueError"
        return r1 and r2 and r3 and r4 and group_state(tree, hooks, g) == before, "(5,3) into (5,): %s; (5,1) into (5,): %s; 0-d into (5,): %s; (4,) into (4,3): %s" % tuple(
            "rejected" if r else "ACCEPTED" for r in (r1, r2, r3, r4))

    @hist("removing a key that is absent raises KeyError (pop and del), like a dict, and changes nothing",
          "group.pop('missing') returns None / del group['missing'] passes silently: a mistyped key goes unnoticed")
    def h19(g, do):
        do("set", "a", A("a", 3))
        before = group_state(tree, hooks, g)
        r1 = do("pop", "zz", expect_raise="KeyError")
        r2 = do("del", "zz", expect_raise="KeyError")
        do("pop", "a")
        r3 = do("pop", "a", expect_raise="KeyError")
        r4 = do("del", "a", expect_raise="KeyError")
        return r1 and r2 and r3 and r4, "pop(absent): %s; del absent: %s; pop twice: %s; del after pop: %s" % tuple("KeyError" if r else "NO ERROR" for r in (r1, r2, r3, r4))

    @hist("keys() / items() / values() handed out earlier keep following the group (dict views), also across clear()",
          "k = group.keys(); group.clear(); group['c'] = x; list(k) is empty or still shows the old keys (clear() swaps the backing dict)")
    def h20(g, do):
        do("set", "a", A("a", 3))
        k, it, vs = (call_method(tree, hooks, g, m) for m in ("keys", "items", "values"))
        if not all(hasattr(x, "__iter__") and not isinstance(x, (list, tuple)) for x in (k, it, vs)):
            return True, "keys()/items()/values() return snapshots (no view contract to keep)"
        do("clear")
        do("set", "c", A("c", 5))
        do("set", "d", A("d", 5))
        do("del", "d")
        got = (list(k), [kk for kk, _ in it], [getattr(v, "origin", None) for v in vs])
        return got == (["c"], ["c"], ["c"]), "views taken before clear() show keys %s, items %s, values %s (required c)" % got

    @hist("update(mapping, **keywords) behaves like dict.update: mapping items first, then the keywords, a keyword winning over the mapping for the same key",
          "group.update({'a': x, 'b': y}, b=z, c=w) ends with b from the mapping, or inserts the keywords before the mapping items")
    def h21(g, do):
        call_method(tree, hooks, g, "update", {"a": A("x1", 3), "b": A("x2", 3)}, b=A("x3", 3), c=A("x4", 3))
        st = group_state(tree, hooks, g)
        return [(k, v[0]) for k, v in st.items()] == [("a", "x1"), ("b", "x3"), ("c", "x4")], "state %s" % [(k, v[0]) for k, v in st.items()]

    def construct_group(*args, **kwargs):
        ev = _ev(tree, hooks, DG_Q + ".__init__")
        try:
            return ev.instantiate(tree.cls(DG_Q), list(args), dict(kwargs), None)
        except Raised as e:
            return e

    @hist("the constructor (mapping form and keyword form) applies the insertion gate to every item",
          "Datagroup({'a': <5 rows>, 'b': <4 rows>}) is accepted: a misaligned group that fails or mixes rows at the next index/sort")
    def h12(g, do):
        r1 = construct_group({"a": A("a", 5), "b": A("b", 4)})
        r2 = construct_group(a=A("a", 5), b=A("b", 4))
        r3 = construct_group({"a": A("a", 5)}, b=A("b", 4))
        ok = all(isinstance(r, Raised) and r.name == "ValueError" for r in (r1, r2, r3))
        return ok, "mapping form -> %s; keyword form -> %s; mixed -> %s" % tuple(("raises " + r.name) if isinstance(r, Raised) else "accepted" for r in (r1, r2, r3))

    @hist("a member may have any name, also the name of a parameter of the constructor: copy() and the keyword form keep it",
          "a member called 'name' (or like any other constructor parameter) is swallowed by Datagroup(**members): copy() loses it")
    def h16(g, do):
        ci_ = tree.cls(DG_Q)
        init = tree.method(ci_, "__init__")
        pnames = [a.arg for a in init.node.args.args[1:] + init.node.args.kwonlyargs] if init is not None else []
        names = sorted(set(pnames) | {"name", "parent", "shape", "unit"})
        for nm in names:
            do("set", nm, A("x-" + nm, 3))
        cp = call_method(tree, hooks, g, "copy")
        st = group_state(tree, hooks, cp) if isinstance(cp, PyObj) else None
        kw = construct_group(**{nm: A("y-" + nm, 3) for nm in names})
        st2 = group_state(tree, hooks, kw) if isinstance(kw, PyObj) else None
        return st is not None and sorted(st) == names and st2 is not None and sorted(st2) == names, "copy() holds %s; keyword form holds %s (required %s)" % (
            sorted(st) if st is not None else cp, sorted(st2) if st2 is not None else kw, names)

    @hist("the constructor stores and renames every item of a well-formed mapping, in order", "Datagroup({'a': x}) loses, reorders or does not rename items")
    def h13(g, do):
        r = construct_group({"p": A("x1", 3), "q": A("x2", 3)}, r=A("x3", 3))
        if isinstance(r, Raised):
            return False, "raises %s" % r.name
        st = group_state(tree, hooks, r)
        return list(st.items()) == [("p", ("x1", (3,), "p")), ("q", ("x2", (3,), "q")), ("r", ("x3", (3,), "r"))], "state %s" % st

    for label, family, fn in H:
        construct = "%s::history[%s]" % (DG_Q, label)
        g = None
        try:
            g = new_group(tree, hooks)

            def do(op, *args, expect_raise=None, g=None, _g=[None]):
                raise RuntimeError
            def make_do(grp):
                def do(op, *args, expect_raise=None):
                    try:
                        if op == "set":
                            r = call_method(tree, hooks, grp, "__setitem__", args[0], args[1])
                        elif op == "del":
                            r = call_method(tree, hooks, grp, "__delitem__", args[0])
                        elif op == "pop":
                            r = call_method(tree, hooks, grp, "pop", args[0])
                        elif op == "clear":
                            r = call_method(tree, hooks, grp, "clear")
                        elif op == "update":
                            r = call_method(tree, hooks, grp, "update", args[0])
                        else:
                            raise Unsupported(op)
                    except Raised as e:
                        if expect_raise and e.name == expect_raise:
                            return True
                        raise
                    if expect_raise:
                        return False
                    return r
                return do
            ok, detail = fn(g, make_do(g))
        except (Raised, ProgramRaised) as e:
            run.violated(construct, "src/osyris/core/datagroup.py", "the history raises %s" % e, family)
            continue
        except ERR as e:
            run.unresolved(construct, "src/osyris/core/datagroup.py", "cannot fold: %s" % e)
            continue
        run.ob(construct, bool(ok), "src/osyris/core/datagroup.py", detail, family)


class EqMember(Model):
    """a group member for the equality fold: `content` names what it holds; != gives an element-wise difference token"""
    kinds = ("Array",)

    def __init__(self, content, vector=False, how="some", normclass=None):
        # content: what the member holds; how: when two contents differ, do "some" or "all" elements differ; normclass: what its norm holds
        self.content, self.vector, self.shape, self.name, self.how, self.normclass = content, vector, (4,), "", how, normclass

    def _diff(self, o):
        if getattr(o, "content", None) == self.content:
            return "none"
        return "all" if "all" in (self.how, getattr(o, "how", "some")) else "some"

    def __ne__(self, o):
        return EqDiff(self._diff(o))

    def __eq__(self, o):
        return EqDiff(self._diff(o), negate=True)

    @property
    def norm(self):
        # the norm of a Vector member (an Array member is its own norm): another quantity, equal for members that differ by a rotation
        return EqMember(("norm", self.normclass if self.normclass is not None else self.content), False, self.how)

    @property
    def values(self):
        return self

    __hash__ = None


class EqDiff(Model):
    """element-wise a != b (negate: a == b) of two members: which elements differ - "none", "some" or "all" of them"""

    def __init__(self, differs, negate=False):
        self.differs, self.negate = (differs if isinstance(differs, str) else ("some" if differs else "none")), negate

    def any_true(self):
        return self.differs != "all" if self.negate else self.differs != "none"

    def all_true(self):
        return self.differs == "none" if self.negate else self.differs == "all"

    @property
    def norm(self):
        return self

    @property
    def values(self):
        return self

    def __invert__(self):
        return EqDiff(self.differs, not self.negate)


def check_group_equality(run, tree):
    """Datagroup.__eq__ interpreted on real Datagroup objects (keys(), items(), __getitem__ are the class's own): same keys in ANY
    insertion order with element-wise equal members -> equal; any other key set or any differing element -> unequal"""
    hooks = core_hooks()
    hooks["ext"] = dict(hooks.get("ext", {}))
    hooks["ext"]["numpy.any"] = lambda d, *a, **k: d.any_true() if isinstance(d, EqDiff) else (_ for _ in ()).throw(Unsupported("np.any(%r)" % (d,)))
    hooks["ext"]["numpy.all"] = lambda d, *a, **k: d.all_true() if isinstance(d, EqDiff) else (_ for _ in ()).throw(Unsupported("np.all(%r)" % (d,)))
    for nm in ("array_equal", "array_equiv"):
        hooks["ext"]["numpy." + nm] = lambda x, y, *a, **k: (getattr(x, "content", x) == getattr(y, "content", y))
    fi = tree.method(tree.cls(DG_Q), "__eq__")
    if fi is None:
        run.violated(DG_Q + ".__eq__", "src/osyris/core/datagroup.py", "__eq__ is not defined", "g1 == g2 is object identity")
        return
    run.analysed(fi)

    def grp(*members):
        g = new_group(tree, hooks)
        for k, content in members:
            call_method(tree, hooks, g, "__setitem__", k, content if isinstance(content, EqMember) else EqMember(content))
        return g
    cases = [
        ("same keys, same order, equal members", [("a", 1), ("b", 2), ("v", 3)], [("a", 1), ("b", 2), ("v", 3)], True),
        ("same keys inserted in another order, equal members", [("a", 1), ("b", 2), ("v", 3)], [("v", 3), ("a", 1), ("b", 2)], True),
        ("same keys in another order, one member differs", [("a", 1), ("b", 2), ("v", 3)], [("v", 3), ("b", 9), ("a", 1)], False),
        ("last member differs", [("a", 1), ("b", 2)], [("a", 1), ("b", 9)], False),
        ("first member differs", [("a", 1), ("b", 2)], [("a", 9), ("b", 2)], False),
        ("the other group has one more key", [("a", 1)], [("a", 1), ("b", 2)], False),
        ("this group has one more key", [("a", 1), ("b", 2)], [("a", 1)], False),
        ("disjoint keys, equal contents", [("a", 1)], [("b", 1)], False),
        ("both empty", [], [], True),
        # the quantifier: unequal as soon as ONE element of ONE member differs; a Vector member is compared component-wise, not through its norm
        ("one element of the last member differs", [("a", 1), ("b", EqMember(2, how="some"))], [("a", 1), ("b", EqMember(9, how="some"))], False),
        ("one element of the first member differs", [("a", EqMember(1, how="some")), ("b", 2)], [("a", EqMember(9, how="some")), ("b", 2)], False),
        ("every element of a member differs", [("a", EqMember(1, how="all")), ("b", 2)], [("a", EqMember(9, how="all")), ("b", 2)], False),
        ("every element of every member differs", [("a", EqMember(1, how="all")), ("b", EqMember(2, how="all"))], [("a", EqMember(8, how="all")), ("b", EqMember(9, how="all"))], False),
        ("a Vector member differs in one row", [("a", 1), ("v", EqMember(3, True))], [("a", 1), ("v", EqMember(4, True))], False),
        ("a Vector member differs by a norm-preserving change (components swapped)", [("a", 1), ("v", EqMember(3, True, "all", "N"))], [("a", 1), ("v", EqMember(4, True, "all", "N"))], False),
        ("a Vector member, all equal", [("a", 1), ("v", EqMember(3, True, "some", "N"))], [("a", 1), ("v", EqMember(3, True, "some", "N"))], True),
    ]
    for label, m1, m2, want in cases:
        construct = "%s.__eq__[%s]" % (DG_Q, label)
        try:
            g1, g2 = grp(*m1), grp(*m2)
            ev = _ev(tree, hooks, DG_Q + ".__init__")
            try:
                got = ev.invoke(fi, [g1, g2], {}, None)
                got = ev.truth(got)
                detail = "returns %s (required %s)" % (got, want)
            except (Raised, ProgramRaised) as e:
                got, detail = None, "raises %s (required %s)" % (e, want)
            run.ob(construct, got is want, fi.where(), detail, "two Datagroups with %s compare %s" % (label, "unequal" if want else "equal"))
        except ERR as e:
            run.unresolved(construct, fi.where(), "cannot fold: %s" % e)


# group compositions the indexing / sorting folds run over: behaviour must not depend on HOW MANY members a group has
COMPOSITIONS = (("a", "b", "v"), ("a",), ("v",), ("b", "v"))


def make_group(tree, hooks, with_vector=True, shape=(4,), members=("a", "b", "v")):
    g = new_group(tree, hooks)
    if "a" in members:
        call_method(tree, hooks, g, "__setitem__", "a", ArrTok("a", "m", shape))
    if "b" in members:
        call_method(tree, hooks, g, "__setitem__", "b", ArrTok("b", "s", shape))
    if with_vector and "v" in members:
        v, _ = make_vector(tree, {c: "v." + c for c in "xyz"}, unit="cm", shape=shape, hooks=hooks)
        call_method(tree, hooks, g, "__setitem__", "v", v)
    return g


def check_group_slice_views(run, tree):
    """dg[i:j] is a group of VIEWS: every member (and every Vector component) is the member's own buffer indexed with the slice itself - an
    index array built from the slice (numpy.arange(n)[i:j]) selects the same rows but copies them, and in-place updates through the
    sub-group no longer reach the Arrays shared with the parent group."""
    hooks = core_hooks({"numpy.arange": lambda *a, **k: RawTok(("arange",) + tuple(getattr(x, "origin", x) for x in a), (a[0] if len(a) == 1 and isinstance(a[0], int) else "sel",))})
    ci = tree.cls(DG_Q)
    gi = tree.method(ci, "__getitem__")
    run.analysed(gi)
    for label, sl in (("dg[1:3]", slice(1, 3)), ("dg[::2]", slice(None, None, 2)), ("dg[:2]", slice(None, 2))):
        construct = "%s.__getitem__[%s: members are views]" % (DG_Q, label)
        try:
            g = make_group(tree, hooks)
            before = {k: member_origin(tree, hooks, v) for k, v in g._attrs["_container"].items()}
            try:
                sub = call_method(tree, hooks, g, "__getitem__", sl)
            except (Raised, ProgramRaised) as e:
                run.violated(construct, gi.where(), "raises %s" % e, "slicing a group")
                continue
            problems = []
            if not (isinstance(sub, PyObj) and sub._cls.qual == DG_Q):
                problems.append("returns %r" % (sub,))
            else:
                key = slice_key((4,), sl)
                for k, v in sub._attrs["_container"].items():
                    got = member_origin(tree, hooks, v)
                    want = {c: ("idx", o, key) for c, o in before[k].items()} if isinstance(before[k], dict) else ("idx", before[k], key)
                    if unintern_deep(got) != unintern_deep(want):
                        problems.append("member %r is %r (required the view %r of the member's own buffer)" % (k, got, want))
            run.ob(construct, not problems, gi.where(), "; ".join(problems[:2]) or "every member is indexed with the slice itself (a view)",
                   "sub = dg[1:4]; sub['a'] *= 2 no longer changes dg['a'] (the slice was turned into an index array: the members of the sub-group are copies)")
        except ERR as e:
            run.unresolved(construct, gi.where(), "cannot fold: %s" % e)


def unintern_deep(o):
    from .core_models import unintern
    try:
        o = unintern(o)
    except Exception:
        pass
    if isinstance(o, dict):
        return {k: unintern_deep(v) for k, v in o.items()}
    if isinstance(o, tuple):
        return tuple(unintern_deep(x) for x in o)
    return o


def member_origin(tree, hooks, m):
    if isinstance(m, PyObj):
        return {c: a.origin for c, a in vector_components(tree, m, hooks).items()}
    return m.origin


def member_unit(tree, hooks, m):
    if isinstance(m, PyObj):
        return {c: a.unit.name for c, a in vector_components(tree, m, hooks).items()}
    return m.unit.name


def _bool_dtype():
    from .array_folds import DT
    return DT("bool")


def check_group_indexing(run, tree):
    hooks = core_hooks()
    idx_cases = [("integer", 2, 2), ("negative integer (a row counted from the end)", -1, -1), ("negative integer (the first row, counted from the end)", -4, -4), ("slice", slice(1, 3, None), slice_key((4,), slice(1, 3, None))),
                 ("reversing slice", slice(None, None, -1), slice_key((4,), slice(None, None, -1))),
                 ("negative-step slice from an offset", slice(-2, None, -1), slice_key((4,), slice(-2, None, -1))),
                 ("strided slice", slice(None, None, 2), slice_key((4,), slice(None, None, 2))),
                 ("boolean mask (ndarray)", RawTok("mask", (4,)), "mask"), ("mask given as an Array", ArrTok("amask", "dimensionless", (4,)), None),
                 ("integer index array", RawTok("perm", (4,)), "perm"),
                 ("python list of row numbers", [2, 0], [2, 0]), ("a mask written as a python list of booleans", BoolList([True, False, True, True]), BoolList([True, False, True, True])), ("empty python list (selects no row: every member stays, with zero rows)", [], []),
                 # members with several values per row ((3, 4) grids): a full boolean mask selects ELEMENTS of every member alike
                 ("N-d boolean mask on N-d members", RawTok("mask2d", (3, 4), _bool_dtype()), "mask2d")]
    for label, idx, key, comp in [c + (m,) for c in idx_cases for m in COMPOSITIONS]:
        construct = "%s.__getitem__[%s]" % (DG_Q, label) + ("" if comp == COMPOSITIONS[0] else "[members %s]" % ",".join(comp))
        try:
            g = make_group(tree, hooks, shape=(3, 4) if label.startswith("N-d") else (4,), members=comp)
            res = call_method(tree, hooks, g, "__getitem__", idx)
            if not (isinstance(res, PyObj) and res._cls.qual == DG_Q):
                run.violated(construct, "src/osyris/core/datagroup.py", "returns %r" % (res,), "group[%s]" % label)
                continue
            cont = res._attrs["_container"]
            problems = []
            if list(cont) != list(comp):
                problems.append("members %s (required %s)" % (list(cont), ", ".join(comp)))
            for k, m in cont.items():
                src = {"a": "a", "b": "b"}.get(k)
                if k == "v":
                    want = {c: ("idx", "v." + c, key) for c in "xyz"}
                    wunit = {c: "cm" for c in "xyz"}
                else:
                    want = ("idx", src, key)
                    wunit = {"a": "m", "b": "s"}[k]
                got = member_origin(tree, hooks, m)
                if isinstance(key, int) and not isinstance(key, bool):
                    # row -1 and row nrows-1 are the same row (the group has 4 rows): compared modulo the number of rows
                    def _row(o):
                        if isinstance(o, dict):
                            return {c_: _row(x) for c_, x in o.items()}
                        if isinstance(o, tuple) and len(o) == 3 and o[0] == "idx" and isinstance(o[2], int) and not isinstance(o[2], bool) and -4 <= o[2] < 4:
                            return (o[0], o[1], o[2] % 4)
                        return o
                    got, want = _row(got), _row(want)
                if key is not None and got != want:
                    problems.append("%s -> %s (required %s)" % (k, got, want))
                if key is None:
                    # an Array index: every member must be indexed with ONE object derived from it
                    flat = [got] if not isinstance(got, dict) else list(got.values())
                    ks = {o[2] if isinstance(o, tuple) and len(o) == 3 and o[0] == "idx" else None for o in flat}
                    if len(ks) != 1 or None in ks:
                        problems.append("%s indexed with %s" % (k, ks))
                if member_unit(tree, hooks, m) != wunit:
                    problems.append("%s has unit %s (required %s)" % (k, member_unit(tree, hooks, m), wunit))
                nm = m._attrs.get("_name") if isinstance(m, PyObj) else m.name
                if nm != k:
                    problems.append("%s is named %r" % (k, nm))
            run.ob(construct, not problems, "src/osyris/core/datagroup.py", "; ".join(problems[:3]) or "every member (Arrays and Vector components) indexed with the same object; units and names kept",
                   "group[%s]: a member is skipped or indexed with something else, so rows no longer correspond; or units/names are lost" % label)
        except (Raised, ProgramRaised) as e:
            run.violated(construct, "src/osyris/core/datagroup.py", "raises %s" % e, "group[%s]" % label)
        except ERR as e:
            run.unresolved(construct, "src/osyris/core/datagroup.py", "cannot fold: %s" % e)
    # member names the class itself compares against get a member of that name: name-dependent branches are entered
    ci = tree.cls(DG_Q)
    special = sorted({c.value for fi in ci.methods.values() for n in ast.walk(fi.node) if isinstance(n, ast.Compare)
                      for c in [n.left] + n.comparators if isinstance(c, ast.Constant) and isinstance(c.value, str)})
    for name in special:
        for label, meth, idx in (("__getitem__", "__getitem__", RawTok("perm", (4,))), ("sortby", "sortby", RawTok("perm", (4,)))):
            construct = "%s.%s[member named %r]" % (DG_Q, label, name)
            try:
                g = make_group(tree, hooks)
                call_method(tree, hooks, g, "__setitem__", name, A("special", 4, "K"))
                res = call_method(tree, hooks, g, meth, idx)
                cont = (res if meth == "__getitem__" else g)._attrs["_container"]
                m = cont.get(name)
                ok = m is not None and member_origin(tree, hooks, m) == ("idx", "special", "perm") and set(cont) == {"a", "b", "v", name}
                run.ob(construct, ok, "src/osyris/core/datagroup.py", "member %r after %s: %s" % (name, label, member_origin(tree, hooks, m) if m is not None else "absent"),
                       "a member with a particular name is skipped by group[...] / sortby", nontrivial=False)
            except (Raised, ProgramRaised) as e:
                run.violated(construct, "src/osyris/core/datagroup.py", "raises %s" % e, "group with a member named %r" % name)
            except ERR as e:
                run.unresolved(construct, "src/osyris/core/datagroup.py", "cannot fold: %s" % e)
    # sortby
    sort_cases = []
    for comp in COMPOSITIONS:
        byname = next((k for k in ("b", "a") if k in comp), None)
        if byname:
            sort_cases.append(("by member name", byname, ("argsort", byname), comp))
        sort_cases.append(("by index list", RawTok("perm", (4,)), "perm", comp))
    for label, key, want_key, comp in sort_cases:
        construct = "%s.sortby[%s]" % (DG_Q, label) + ("" if comp == COMPOSITIONS[0] else "[members %s]" % ",".join(comp))
        try:
            g = make_group(tree, hooks, members=comp)
            ids_before = {k: id(v) for k, v in g._attrs["_container"].items()}
            call_method(tree, hooks, g, "sortby", key)
            cont = g._attrs["_container"]
            problems = []
            if list(cont) != list(comp):
                problems.append("members %s" % list(cont))
            for k, m in cont.items():
                got = member_origin(tree, hooks, m)
                want = {c: ("idx", "v." + c, want_key) for c in "xyz"} if k == "v" else ("idx", k, want_key)
                if got != want:
                    problems.append("%s -> %s (required %s)" % (k, got, want))
                nm = m._attrs.get("_name") if isinstance(m, PyObj) else m.name
                if nm != k:
                    problems.append("%s named %r" % (k, nm))
            run.ob(construct, not problems, "src/osyris/core/datagroup.py", "; ".join(problems[:3]) or "one permutation (argsort of the key member, computed once) applied to every member",
                   "sortby: a member (e.g. a Vector) keeps its old order, or each member is sorted by its own values")
        except (Raised, ProgramRaised) as e:
            run.violated(construct, "src/osyris/core/datagroup.py", "raises %s" % e, "sortby")
        except ERR as e:
            run.unresolved(construct, "src/osyris/core/datagroup.py", "cannot fold: %s" % e)
    # aliasing inside the group: the same Array object under two names, a Vector component also stored as a member,
    # and the index itself being a member: still ONE permutation per member
    construct = DG_Q + ".sortby[aliased members]"
    try:
        g = make_group(tree, hooks)
        cont = g._attrs["_container"]
        call_method(tree, hooks, g, "__setitem__", "a2", cont["a"])
        comp_x = vector_components(tree, cont["v"], hooks)["x"]
        call_method(tree, hooks, g, "__setitem__", "vx", comp_x)
        order = A("order", 4, "dimensionless")
        cont_keys = list(g._attrs["_container"])
        call_method(tree, hooks, g, "sortby", RawTok("perm", (4,)))
        cont = g._attrs["_container"]
        problems = []
        for k, m in cont.items():
            got = member_origin(tree, hooks, m)
            src = {"a2": "a", "vx": "v.x"}.get(k, k)
            want = {c: ("idx", "v." + c, "perm") for c in "xyz"} if k == "v" else ("idx", src, "perm")
            if got != want:
                problems.append("%s -> %s (required %s)" % (k, got, want))
        run.ob(construct, not problems and list(cont) == cont_keys, "src/osyris/core/datagroup.py", "; ".join(problems[:3]) or
               "an Array object reachable twice (two names; Vector component stored as a member) is permuted once",
               "sortby permutes the data of shared Array objects in place: an object reachable twice is permuted twice and its rows no longer line up")
    except (Raised, ProgramRaised) as e:
        run.violated(construct, "src/osyris/core/datagroup.py", "raises %s" % e, "sortby on a group with aliased members")
    except ERR as e:
        run.unresolved(construct, "src/osyris/core/datagroup.py", "cannot fold: %s" % e)
    try:
        g = make_group(tree, hooks)
        before = group_state(tree, hooks, g)
        call_method(tree, hooks, g, "sortby", None)
        run.ob(DG_Q + ".sortby[None]", group_state(tree, hooks, g) == before, "src/osyris/core/datagroup.py", "sortby(None) leaves the group unchanged", "", nontrivial=False)
    except (Raised, ProgramRaised) + ERR as e:
        run.unresolved(DG_Q + ".sortby[None]", "src/osyris/core/datagroup.py", "cannot fold: %s" % e)


def check_group_copy(run, tree):
    hooks = core_hooks()
    try:
        g = make_group(tree, hooks)
        c = call_method(tree, hooks, g, "copy")
        same = isinstance(c, PyObj) and c is not g and list(c._attrs["_container"]) == ["a", "b", "v"] and all(
            c._attrs["_container"][k] is g._attrs["_container"][k] for k in ("a", "b", "v"))
        run.ob(DG_Q + ".copy::shallow", same, "src/osyris/core/datagroup.py", "copy() is a new group holding the SAME member objects: %s" % same,
               "g2 = g.copy(); g2['a'] *= 2 is not seen through g['a'] (container copies are documented shallow), or a member is missing")
    except (Raised, ProgramRaised) as e:
        run.violated(DG_Q + ".copy::shallow", "src/osyris/core/datagroup.py", "raises %s" % e, "group.copy()")
    except ERR as e:
        run.unresolved(DG_Q + ".copy::shallow", "src/osyris/core/datagroup.py", "cannot fold: %s" % e)


def check_dataset_histories(run, tree):
    hooks = core_hooks()

    def new_ds():
        ev = _ev(tree, hooks, DS_Q + ".__init__")
        return ev.instantiate(tree.cls(DS_Q), [], {}, None)
    cases = []

    def case(label, family):
        def deco(fn):
            cases.append((label, family, fn))
            return fn
        return deco

    @case("a Datagroup is stored, named and parented", "ds['gas'] = group leaves group.name / group.parent stale")
    def c1():
        ds = new_ds()
        g = new_group(tree, hooks)
        call_method(tree, hooks, ds, "__setitem__", "gas", g)
        return ds._attrs["groups"].get("gas") is g and pub(tree, hooks, g, "name") == "gas" and pub(tree, hooks, g, "parent") is ds, "name=%r parent set=%s" % (pub(tree, hooks, g, "name"), pub(tree, hooks, g, "parent") is ds)

    @case("a value that is not a Datagroup is rejected and nothing is stored", "ds['x'] = an Array is stored (or renamed) instead of raising TypeError")
    def c2():
        ds = new_ds()
        a = A("a", 3)
        a.name = "keep"
        try:
            call_method(tree, hooks, ds, "__setitem__", "x", a)
            return False, "accepted"
        except Raised as e:
            return e.name == "TypeError" and "x" not in ds._attrs["groups"] and a.name == "keep", "raises %s; groups %s; value name %r" % (e.name, list(ds._attrs["groups"]), a.name)

    @case("update and the constructor go through the gate and name/parent every group", "Dataset.update writes straight into the backing dict: groups get no parent/name, non-groups are accepted")
    def c3():
        ds = new_ds()
        g1, g2 = new_group(tree, hooks), new_group(tree, hooks)
        call_method(tree, hooks, ds, "update", {"a": g1, "b": g2})
        ok = pub(tree, hooks, g1, "name") == "a" and pub(tree, hooks, g2, "parent") is ds
        try:
            call_method(tree, hooks, ds, "update", {"c": A("c", 3)})
            return False, "update accepted a non-group"
        except Raised as e:
            return ok and e.name == "TypeError", "names %r/%r; bad update raises %s" % (pub(tree, hooks, g1, "name"), pub(tree, hooks, g2, "name"), e.name)

    @case("overwriting a key keeps its position; get / pop / in / len / iteration agree with the contents (empty groups included)",
          "ds[k] = g for an existing non-last key moves k to the end; get(k) returns the default for a stored but empty group")
    def c_order():
        ds = new_ds()
        gs = {k: new_group(tree, hooks) for k in ("a", "b", "c")}
        for k, g in gs.items():
            call_method(tree, hooks, ds, "__setitem__", k, g)
        g2 = new_group(tree, hooks)
        call_method(tree, hooks, ds, "__setitem__", "a", g2)
        call_method(tree, hooks, ds, "update", {"b": new_group(tree, hooks)})
        ev = _ev(tree, hooks, DS_Q + ".__init__")
        order = list(ev.iterate(ds))
        keys = list(call_method(tree, hooks, ds, "keys"))
        got = call_method(tree, hooks, ds, "get", "a", "dflt")
        return order == ["a", "b", "c"] and keys == ["a", "b", "c"] and got is g2 and call_method(tree, hooks, ds, "__len__") == 3, \
            "iteration %s keys %s get('a') is the stored (empty) group: %s" % (order, keys, got is g2)

    @case("re-inserting the same group under its key renames it again", "a group stored under K, then under another key, then again under K keeps the other name")
    def c4():
        ds = new_ds()
        g = new_group(tree, hooks)
        call_method(tree, hooks, ds, "__setitem__", "K", g)
        call_method(tree, hooks, ds, "__setitem__", "other", g)
        call_method(tree, hooks, ds, "__setitem__", "K", g)
        return pub(tree, hooks, g, "name") == "K" and pub(tree, hooks, g, "parent") is ds, "name after re-insertion %r" % pub(tree, hooks, g, "name")

    @case("clear empties groups and metadata; pop/del/get/len/iteration behave like a dict", "clear() leaves metadata behind / pop returns nothing")
    def c5():
        ds = new_ds()
        g = new_group(tree, hooks)
        call_method(tree, hooks, ds, "__setitem__", "a", g)
        ev = _ev(tree, hooks, DS_Q + ".__init__")
        ev.obj_getattr(ds, "meta")["time"] = 1
        ok = call_method(tree, hooks, ds, "__len__") == 1 and ev.iterate(ds) == ["a"] and call_method(tree, hooks, ds, "get", "a", None) is g and \
            call_method(tree, hooks, ds, "get", "zz", "d") == "d" and list(call_method(tree, hooks, ds, "keys")) == ["a"]
        p = call_method(tree, hooks, ds, "pop", "a")
        ok = ok and p is g and call_method(tree, hooks, ds, "__len__") == 0
        call_method(tree, hooks, ds, "__setitem__", "b", g)
        call_method(tree, hooks, ds, "clear")
        return ok and not ds._attrs["groups"] and not ev.obj_getattr(ds, "meta"), "groups %s meta %s" % (list(ds._attrs["groups"]), ev.obj_getattr(ds, "meta"))

    @case("copy is shallow for groups and copies the metadata", "ds.copy().meta['x'] = 1 changes ds.meta, or groups are deep-copied")
    def c6():
        ds = new_ds()
        g = new_group(tree, hooks)
        call_method(tree, hooks, ds, "__setitem__", "a", g)
        ev = _ev(tree, hooks, DS_Q + ".__init__")
        ev.obj_getattr(ds, "meta")["time"] = 1
        c = call_method(tree, hooks, ds, "copy")
        cm_, dm_ = ev.obj_getattr(c, "meta"), ev.obj_getattr(ds, "meta")
        return c is not ds and c._attrs["groups"].get("a") is g and cm_ == {"time": 1} and cm_ is not dm_, \
            "groups shared=%s meta copied=%s" % (c._attrs["groups"].get("a") is g, cm_ is not dm_)

    @case("removing a group that is absent raises KeyError (pop and del)", "ds.pop('missing') returns None / del ds['missing'] passes silently")
    def c7():
        ds = new_ds()
        call_method(tree, hooks, ds, "__setitem__", "a", new_group(tree, hooks))
        res = []
        for meth in ("pop", "__delitem__"):
            try:
                call_method(tree, hooks, ds, meth, "zz")
                res.append("no error")
            except Raised as e:
                res.append(e.name)
        return res == ["KeyError", "KeyError"] and list(ds._attrs["groups"]) == ["a"], "pop(absent) -> %s; del absent -> %s" % tuple(res)

    @case("keys() / items() / values() handed out earlier keep following the dataset (dict views), also across clear()",
          "k = ds.keys(); ds.clear(); ds['b'] = g; list(k) is empty or shows the old keys (clear() swaps the backing dict)")
    def c8():
        ds = new_ds()
        call_method(tree, hooks, ds, "__setitem__", "a", new_group(tree, hooks))
        k, it, vs = (call_method(tree, hooks, ds, m) for m in ("keys", "items", "values"))
        if not all(hasattr(x, "__iter__") and not isinstance(x, (list, tuple)) for x in (k, it, vs)):
            return True, "keys()/items()/values() return snapshots (no view contract to keep)"
        call_method(tree, hooks, ds, "clear")
        g = new_group(tree, hooks)
        call_method(tree, hooks, ds, "__setitem__", "b", g)
        got = (list(k), [kk for kk, _ in it], [v is g for v in vs])
        return got == (["b"], ["b"], [True]), "views taken before clear() show keys %s, items %s, values-are-the-new-group %s" % got

    @case("update(mapping, **keywords) behaves like dict.update: mapping items first, then the keywords, a keyword winning over the mapping for the same key",
          "ds.update({'a': g1, 'b': g2}, b=g3, c=g4) ends with b from the mapping, or inserts the keywords before the mapping items")
    def c9():
        ds = new_ds()
        g = {k: new_group(tree, hooks) for k in ("a", "b-map", "b-kw", "c")}
        call_method(tree, hooks, ds, "update", {"a": g["a"], "b": g["b-map"]}, b=g["b-kw"], c=g["c"])
        cont = ds._attrs["groups"]
        ok = list(cont) == ["a", "b", "c"] and cont.get("b") is g["b-kw"] and cont.get("a") is g["a"] and cont.get("c") is g["c"]
        ds2 = new_ds()
        call_method(tree, hooks, ds2, "update", [("x", g["a"]), ("y", g["c"])])
        ok2 = list(ds2._attrs["groups"]) == ["x", "y"]
        return ok and ok2, "after update({'a','b'}, b=, c=): keys %s, b is the %s; update(list of pairs): keys %s" % (
            list(cont), "keyword's group" if cont.get("b") is g["b-kw"] else "mapping's group", list(ds2._attrs["groups"]))

    @case("metadata filled in place (ds.meta[k] = v, ds.meta.update(...)) belongs to that dataset: another dataset and a deep copy have their own dictionary",
          "two datasets share one meta dictionary (a class-level `meta = {}`): the time / ncells of the second output overwrite those of the first; deepcopy(ds).meta IS ds.meta")
    def c10():
        ds1, ds2 = new_ds(), new_ds()
        ev = _ev(tree, hooks, DS_Q + ".__init__")
        m1, m2 = ev.obj_getattr(ds1, "meta"), ev.obj_getattr(ds2, "meta")
        if not (isinstance(m1, dict) and isinstance(m2, dict)):
            return False, "meta is %r / %r" % (m1, m2)
        m1["time"] = "T1"
        own = m1 is not m2 and "time" not in m2
        dc = ev.py_copy(ds1, deep=True)
        md = ev.obj_getattr(dc, "meta") if isinstance(dc, PyObj) else None
        copied = isinstance(md, dict) and md is not m1 and md.get("time") == "T1"
        if copied:
            md["time"] = "T2"
            copied = m1.get("time") == "T1"
        return own and copied, "second dataset has its own meta: %s; deep copy has its own meta holding the same entries: %s" % (own, copied)

    @case("the dataset is a container of references: clear() / pop() / del empty the container only - the groups it held keep their members; "
          "a group already owned by another dataset is stored AS IS (the same object, re-parented), like test_copy pins for copy()",
          "ds.clear() empties every Datagroup it held (a shallow copy made before now maps to empty groups); ds2['a'] = ds1['a'] stores a copy, "
          "so later edits of the group are not seen through ds2")
    def c11():
        ds = new_ds()
        g = make_group(tree, hooks)
        members_before = group_state(tree, hooks, g)
        call_method(tree, hooks, ds, "__setitem__", "a", g)
        shallow = call_method(tree, hooks, ds, "copy")
        call_method(tree, hooks, ds, "clear")
        kept = group_state(tree, hooks, g) == members_before and shallow._attrs["groups"].get("a") is g
        ds1, ds2 = new_ds(), new_ds()
        h = new_group(tree, hooks)
        call_method(tree, hooks, ds1, "__setitem__", "a", h)
        call_method(tree, hooks, ds2, "__setitem__", "b", h)
        same = ds2._attrs["groups"].get("b") is h and ds1._attrs["groups"].get("a") is h
        return kept and same, "members of a held group after clear(): %s (before: %s); the group stored in a second dataset is the same object: %s" % (
            sorted(g._attrs.get("_container", {})), sorted(members_before), same)

    for label, family, fn in cases:
        construct = "%s::history[%s]" % (DS_Q, label)
        try:
            ok, detail = fn()
            run.ob(construct, bool(ok), "src/osyris/core/dataset.py", detail, family)
        except (Raised, ProgramRaised) as e:
            run.violated(construct, "src/osyris/core/dataset.py", "raises %s" % e, family)
        except ERR as e:
            run.unresolved(construct, "src/osyris/core/dataset.py", "cannot fold: %s" % e)


# =============================================================================== Vector numpy dispatch
class FuncTok:
    """A numpy function seen abstractly: records how it is applied."""

    def __init__(self, name):
        self.__name__ = name

    def __call__(self, *args, **kwargs):
        def o(x):
            if isinstance(x, (tuple, list)):
                return tuple(o(y) for y in x)
            return getattr(x, "origin", x)
        return ArrTok(("F", self.__name__, tuple(o(a) for a in args), tuple(sorted((k, o(v)) for k, v in kwargs.items()))), "u", (3,))


def check_vector_wrap_numpy(run, tree):
    hooks = core_hooks()
    F = FuncTok("f")
    cases = []
    for n in (2, 3):
        cs = "xyz"[:n]
        cases.append(("unary, %d components" % n, n, lambda v, w: [F, v], {}, lambda c: ("F", "f", ("v." + c,), ())))
        cases.append(("unary with axis=, %d components" % n, n, lambda v, w: [F, v], {"axis": 0}, lambda c: ("F", "f", ("v." + c,), (("axis", 0),))))
        cases.append(("two Vectors, %d components" % n, n, lambda v, w: [F, v, w], {}, lambda c: ("F", "f", ("v." + c, "w." + c), ())))
        cases.append(("Vector and number, %d components" % n, n, lambda v, w: [F, v, 2.0], {}, lambda c: ("F", "f", ("v." + c, 2.0), ())))
        cases.append(("sequence of Vectors, %d components" % n, n, lambda v, w: [F, [v, w]], {}, lambda c: ("F", "f", (("v." + c, "w." + c),), ())))
        cases.append(("sequence + extra argument, %d components" % n, n, lambda v, w: [F, (v, w), 0], {}, lambda c: ("F", "f", (("v." + c, "w." + c), 0), ())))
        # every further positional argument reaches the function, in order (np.isclose(v, w, rtol, atol), np.clip(v, lo, hi), np.where(v, a, b))
        cases.append(("two Vectors + two positional arguments, %d components" % n, n, lambda v, w: [F, v, w, 0.25, 0.5], {}, lambda c: ("F", "f", ("v." + c, "w." + c, 0.25, 0.5), ())))
        cases.append(("Vector + three positional arguments, %d components" % n, n, lambda v, w: [F, v, 1.5, 2.5, 3.5], {"k": 1}, lambda c: ("F", "f", ("v." + c, 1.5, 2.5, 3.5), (("k", 1),))))
    for label, n, mk, kw, want_f in cases:
        construct = "%s._wrap_numpy[%s]" % (VECTOR_Q, label)
        try:
            v, _ = make_vector(tree, {c: "v." + c for c in "xyz"[:n]}, hooks=hooks)
            w, _ = make_vector(tree, {c: "w." + c for c in "xyz"[:n]}, hooks=hooks)
            res = call_method(tree, hooks, v, "_wrap_numpy", *mk(v, w), **kw)
            if not (isinstance(res, PyObj) and res._cls.qual == VECTOR_Q):
                run.violated(construct, "src/osyris/core/vector.py", "returns %r" % (res,), "np.<f>(vector)")
                continue
            got = {c: a.origin for c, a in vector_components(tree, res, hooks).items()}
            want = {c: want_f(c) for c in "xyz"[:n]}
            run.ob(construct, got == want, "src/osyris/core/vector.py", "result %s%s" % (got, "" if got == want else "; required %s" % want),
                   "np.<f> on Vectors (%s) ignores a component or mixes components" % label)
        except (Raised, ProgramRaised) as e:
            run.violated(construct, "src/osyris/core/vector.py", "raises %s" % e, "np.<f> on Vectors")
        except ERR as e:
            run.unresolved(construct, "src/osyris/core/vector.py", "cannot fold: %s" % e)


# =============================================================================== Vector construction
def check_vector_constructor(run, tree):
    hooks = core_hooks()
    vi = tree.cls(VECTOR_Q)
    init = tree.method(vi, "__init__")
    run.analysed(init)
    ev = ModelEval(tree, init, {}, hooks)

    def A_(tag, unit="m", n=3):
        return ArrTok(tag, unit, (n,))

    def state(v):
        return {c: (a.origin, a.unit.name) for c, a in vector_components(tree, v, hooks).items()}

    def _typed(a, dt):
        a.dtype = dt
        return a
    cases = [
        ("three Arrays, same unit and shape", lambda: dict(x=A_("X"), y=A_("Y"), z=A_("Z")), {"x": ("X", "m"), "y": ("Y", "m"), "z": ("Z", "m")}, True),
        ("two Arrays", lambda: dict(x=A_("X"), y=A_("Y")), {"x": ("X", "m"), "y": ("Y", "m")}, False),
        ("y in another unit", lambda: dict(x=A_("X"), y=A_("Y", "cm"), z=A_("Z")), "raises ValueError", True),
        ("z in another unit", lambda: dict(x=A_("X"), y=A_("Y"), z=A_("Z", "cm")), "raises ValueError", True),
        ("y of another shape", lambda: dict(x=A_("X"), y=A_("Y", n=4), z=A_("Z")), "raises ValueError", True),
        ("z of another shape", lambda: dict(x=A_("X"), y=A_("Y"), z=A_("Z", n=4)), "raises ValueError", True),
        ("Arrays plus an explicit unit", lambda: dict(x=A_("X"), y=A_("Y"), unit="s"), "raises ValueError", False),
        ("raw values with a unit", lambda: dict(x=RawTok("X"), y=RawTok("Y"), z=RawTok("Z"), unit="s"),
         {"x": ("X", "s"), "y": ("Y", "s"), "z": ("Z", "s")}, True),
        # components of different dtypes: each keeps the buffer it was given (no cast to the dtype of x: a cast is a COPY, and the Vector
        # would stop sharing its data with the Arrays it was built from / with its own slices)
        ("Arrays of different dtypes (float64, float32, int64)", lambda: dict(x=A_("X"), y=_typed(A_("Y"), "float32"), z=_typed(A_("Z"), "int64")),
         {"x": ("X", "m"), "y": ("Y", "m"), "z": ("Z", "m")}, True),
    ]
    for label, mk, want, nontrivial in cases:
        construct = "%s.__init__[%s]" % (VECTOR_Q, label)
        try:
            try:
                v = ev.instantiate(vi, [], mk(), None)
                got = state(v)
            except (Raised, ProgramRaised) as e:
                got = "raises " + getattr(e, "name", str(e))
            run.ob(construct, got == want, init.where(), "%s -> %s%s" % (label, got, "" if got == want else " (required %s)" % (want,)),
                   "Vector(x_in_m, y_in_cm) or components of different lengths accepted; components mislabelled", nontrivial=nontrivial)
        except ERR as e:
            run.unresolved(construct, init.where(), "cannot fold: %s" % e)
    for ncomp in (3, 2):
        construct = "%s.unit.setter[%d components]" % (VECTOR_Q, ncomp)
        try:
            v = ev.instantiate(vi, [], dict(x=A_("X"), y=A_("Y"), **({"z": A_("Z")} if ncomp == 3 else {})), None)
            ev.obj_setattr(v, "unit", "s", None)
            got = {c: u for c, (o, u) in state(v).items()}
            run.ob(construct, set(got.values()) == {"s"} and len(got) == ncomp, init.where(), "after v.unit = 's': %s" % got,
                   "v.unit = u relabels only some components", nontrivial=ncomp == 3)
        except (Raised, ProgramRaised) as e:
            run.violated(construct, init.where(), "raises %s" % e, "v.unit = u")
        except ERR as e:
            run.unresolved(construct, init.where(), "cannot fold: %s" % e)


# =============================================================================== copies (C17.R4/R5)
def check_copies_fold(run, tree):
    """copy(), copy.copy and copy.deepcopy of Array, Vector, Datagroup and Dataset folded over buffer tokens: deep ones allocate fresh
    buffers for every component / member, container copy() re-inserts the SAME member objects into a new container"""
    from . import array_folds as af
    hooks = core_hooks()
    ev = _ev(tree, hooks)

    def variants(obj):
        m = tree.method(obj._cls, "copy")
        out = []
        if m is not None:
            out.append(("copy()", lambda: ev.invoke(m, [obj], {}, None)))
        out.append(("copy.copy", lambda: ev.py_copy(obj, deep=False)))
        out.append(("copy.deepcopy", lambda: ev.py_copy(obj, deep=True)))
        return out
    # ---- Array (the class itself interpreted)
    hk = af.hooks()
    a = af.new_array(tree, hk, "A", "m")
    a._attrs["name"] = "nm"
    eva = ModelEval(tree, tree.func(af.ARRAY_Q + ".__init__"), {}, hk)
    for label, deep in (("copy()", None), ("copy.copy", False), ("copy.deepcopy", True)):
        construct = "%s::%s" % (af.ARRAY_Q, label)
        try:
            m = tree.method(a._cls, "copy")
            if deep is None and m is None:
                run.violated(construct, "src/osyris/core/array.py", "Array.copy is not defined", "a.copy()")
                continue
            r = eva.invoke(m, [a], {}, None) if deep is None else eva.py_copy(a, deep=deep)
            st = af.arr_state(r) if isinstance(r, PyObj) else None
            ok = isinstance(r, PyObj) and r is not a and st == (("copy", "A"), "m") and r._attrs.get("name", r._attrs.get("_name")) == "nm" and af.arr_state(a) == ("A", "m")
            run.ob(construct, ok, "src/osyris/core/array.py", "%s -> %s%s" % (label, st, "" if ok else " (required a new Array on a fresh copy of the buffer, same unit and name)"),
                   "b = %s; b *= 2 changes a (or a later in-place update of a shows through b); the unit or name is lost" % label)
        except (Raised, ProgramRaised) as e:
            run.violated(construct, "src/osyris/core/array.py", "raises %s" % e, label)
        except ERR as e:
            run.unresolved(construct, "src/osyris/core/array.py", "cannot fold: %s" % e)
    # ---- Array on a READ-ONLY buffer (np.broadcast_to views, memory maps): the copy is a fresh buffer all the same - the original can be
    # (and is, by whoever owns the underlying memory) updated later, and the copy must not follow it
    for label, deep in (("copy()", None), ("copy.copy", False), ("copy.deepcopy", True)):
        construct = "%s::%s[read-only buffer]" % (af.ARRAY_Q, label)
        try:
            ro = af.new_array(tree, hk, "RO", "m")
            buf = ro._attrs.get("_array")
            if not hasattr(buf, "flags"):
                raise Unsupported("buffer model without flags")
            buf.flags.writeable = False
            m = tree.method(ro._cls, "copy")
            r = eva.invoke(m, [ro], {}, None) if deep is None else eva.py_copy(ro, deep=deep)
            st = af.arr_state(r) if isinstance(r, PyObj) else None
            ok = isinstance(r, PyObj) and r is not ro and st == (("copy", "RO"), "m")
            run.ob(construct, ok, "src/osyris/core/array.py", "%s -> %s%s" % (label, st, "" if ok else " (required a fresh copy of the buffer although it is read-only)"),
                   "b = %s of an Array on a read-only view (np.broadcast_to, a memory map): b shares the memory and follows later changes of the underlying data" % label)
        except (Raised, ProgramRaised) as e:
            run.violated(construct, "src/osyris/core/array.py", "raises %s" % e, label)
        except ERR as e:
            run.unresolved(construct, "src/osyris/core/array.py", "cannot fold: %s" % e)
    # ---- Vector
    for n in (3, 1):
        v, _ = make_vector(tree, {c: "L." + c for c in "xyz"[:n]}, unit="m", hooks=hooks)
        for label, fn in variants(v):
            construct = "%s::%s[%d components]" % (VECTOR_Q, label, n)
            try:
                r = fn()
                got = {c: x.origin for c, x in vector_components(tree, r, hooks).items()} if isinstance(r, PyObj) else None
                want = {c: ("copy", "L." + c) for c in "xyz"[:n]}
                run.ob(construct, r is not v and got == want, "src/osyris/core/vector.py", "%s -> %s" % (label, got),
                       "w = %s of v; w.x *= 2 changes v.x" % label, nontrivial=n == 3)
            except (Raised, ProgramRaised) as e:
                run.violated(construct, "src/osyris/core/vector.py", "raises %s" % e, label)
            except ERR as e:
                run.unresolved(construct, "src/osyris/core/vector.py", "cannot fold: %s" % e)
    # ---- Datagroup
    g = make_group(tree, hooks)
    for label, fn in variants(g):
        construct = "%s::%s" % (DG_Q, label)
        try:
            r = fn()
            cont, orig = (r._attrs.get("_container") if isinstance(r, PyObj) else None), g._attrs["_container"]
            if label == "copy.deepcopy":
                ok = isinstance(cont, dict) and r is not g and cont is not orig and list(cont) == list(orig) and all(cont[k] is not orig[k] for k in orig) and \
                    cont["a"].origin == ("copy", "a") and {c: x.origin for c, x in vector_components(tree, cont["v"], hooks).items()} == {c: ("copy", "v." + c) for c in "xyz"}
                want = "a new group whose members are copies on fresh buffers"
            else:
                ok = isinstance(cont, dict) and r is not g and cont is not orig and list(cont) == list(orig) and all(cont[k] is orig[k] for k in orig)
                want = "a new group holding the SAME member objects"
            run.ob(construct, ok, "src/osyris/core/datagroup.py", "%s gives %s: %s" % (label, want, ok),
                   "g2 = g.copy(); g2['a'] *= 2 is not seen through g['a'] (container copies are documented shallow) / deepcopy(g)['a'] *= 2 changes g['a'] / a member is missing")
        except (Raised, ProgramRaised) as e:
            run.violated(construct, "src/osyris/core/datagroup.py", "raises %s" % e, label)
        except ERR as e:
            run.unresolved(construct, "src/osyris/core/datagroup.py", "cannot fold: %s" % e)
    # ---- Dataset
    evd = _ev(tree, hooks, DS_Q + ".__init__")
    ds = evd.instantiate(tree.cls(DS_Q), [], {}, None)
    call_method(tree, hooks, ds, "__setitem__", "gas", make_group(tree, hooks))
    # the metadata are filled IN PLACE, as RamsesDataset.__init__ does (self.meta.update(...)): the dictionary the class gave the instance
    ds_meta = evd.obj_getattr(ds, "meta")
    ds_meta.update({"time": "T", "nested": {"k": 1, "deeper": [1, {"leaf": 2}]}})
    gobj = ds._attrs["groups"]["gas"]
    for label, fn in variants(ds):
        construct = "%s::%s" % (DS_Q, label)
        try:
            r = fn()
            problems = []
            if not (isinstance(r, PyObj) and r is not ds and r._cls.qual == DS_Q):
                problems.append("returns %r" % (r,))
            else:
                gr = r._attrs.get("groups", {})
                meta = evd.obj_getattr(r, "meta")
                if list(gr) != ["gas"]:
                    problems.append("groups %s" % list(gr))
                elif label == "copy.deepcopy":
                    if gr["gas"] is gobj or gr["gas"]._attrs["_container"]["a"] is gobj._attrs["_container"]["a"]:
                        problems.append("the deep copy shares a group or a member with the original")
                    if meta != ds_meta or meta is ds_meta or meta["nested"] is ds_meta["nested"]:
                        problems.append("metadata of the deep copy: %r" % (meta,))
                else:
                    if gr["gas"] is not gobj:
                        problems.append("copy() does not share the group objects (container copies are documented shallow)")
                    if meta != ds_meta or meta is ds_meta:
                        problems.append("metadata %s" % ("shared with the original" if meta is ds_meta else "lost: %r" % (meta,)))
            run.ob(construct, not problems, "src/osyris/core/dataset.py", "; ".join(problems) or "%s: %s" % (label, "independent" if label == "copy.deepcopy" else "new Dataset, same groups, own metadata dict"),
                   "ds.copy().meta['x'] = 1 changes ds.meta; deepcopy(ds)['gas']['a'] *= 2 changes ds")
        except (Raised, ProgramRaised) as e:
            run.violated(construct, "src/osyris/core/dataset.py", "raises %s" % e, label)
        except ERR as e:
            run.unresolved(construct, "src/osyris/core/dataset.py", "cannot fold: %s" % e)
    # ---- "fully independent": nothing mutable is reachable from both the deep copy and the original (whatever attribute holds it:
    # members, metadata, the group -> dataset back link, ...)
    def reachable(root):
        seen, todo, path = {}, [(root, "<root>")], {}
        while todo:
            o, p = todo.pop()
            if isinstance(o, (str, int, float, bool, type(None), bytes, Marker)) or (isinstance(o, Model) and "Unit" in getattr(o, "kinds", ())):
                continue
            if id(o) in seen:
                continue
            if isinstance(o, (PyObj, dict, list, set, Model)):
                seen[id(o)] = (o, p)
            if isinstance(o, PyObj):
                todo.extend((v, p + "." + k) for k, v in o._attrs.items())
            elif isinstance(o, dict):
                todo.extend((v, p + "[%r]" % (k,)) for k, v in o.items())
            elif isinstance(o, (list, tuple, set)):
                todo.extend((v, p + "[...]") for v in o)
        return seen
    for label, root in (("deepcopy of a Dataset", ds), ("deepcopy of a Datagroup stored in a Dataset", gobj)):
        construct = "%s::%s shares nothing mutable with the original" % (DS_Q if root is ds else DG_Q, label)
        where = "src/osyris/core/dataset.py" if root is ds else "src/osyris/core/datagroup.py"
        try:
            r = ev.py_copy(root, deep=True)
            a_, b_ = reachable(root), reachable(r)
            shared = sorted(b_[k][1] for k in set(a_) & set(b_))
            run.ob(construct, not shared and len(b_) >= len(a_), where, ("reachable from both: %s" % ", ".join(shared[:4])) if shared else
                   "%d objects reachable from the copy, none of them reachable from the original" % len(b_),
                   "the copy still points into the original (e.g. the group's link to its Dataset): updates through it change the original, and changes of the original show in the copy")
        except (Raised, ProgramRaised) as e:
            run.violated(construct, where, "raises %s" % e, label)
        except ERR as e:
            run.unresolved(construct, where, "cannot fold: %s" % e)


# =============================================================================== thorough tier: the whole history space of a Datagroup
def check_datagroup_history_space(run, tree, depth=3):
    """every sequence of up to `depth` dictionary operations (set with a matching / a mismatching length, del, pop, clear, update with
    good / bad items, on present / absent keys) applied to a fresh Datagroup, compared step by step with a reference dictionary with
    the insertion gate: same keys in the same order, same members, every stored member named after its key, a refused operation raises
    ValueError (KeyError for an absent key) and leaves the group as it was"""
    import itertools
    hooks = core_hooks()
    counter = itertools.count()

    def fresh(n):
        return A("t%d" % next(counter), n)
    alphabet = [("set", "a", 3), ("set", "a", 5), ("set", "b", 3), ("set", "b", 5), ("del", "a"), ("del", "b"), ("pop", "a"), ("pop", "b"), ("clear",),
                ("update", (("a", 3), ("b", 3))), ("update", (("b", 5), ("c", 5))), ("update", (("c", 3), ("d", 5)))]
    bad, unres, nseq, nsteps = [], [], 0, 0
    for L_ in range(1, depth + 1):
        for seq in itertools.product(alphabet, repeat=L_):
            nseq += 1
            try:
                g = new_group(tree, hooks)
                ref = {}                                   # key -> (origin, length)
                for step, op in enumerate(seq):
                    nsteps += 1
                    before = dict(ref)
                    allowed = None                          # list of acceptable reference states after the step
                    want_exc = None
                    args = ()
                    if op[0] == "set":
                        v = fresh(op[2])
                        shape = next(iter(ref.values()))[1] if ref else None
                        if shape is not None and shape != op[2]:
                            want_exc = "ValueError"
                        else:
                            ref[op[1]] = (v.origin, op[2])
                        mname, args = "__setitem__", (op[1], v)
                    elif op[0] in ("del", "pop"):
                        if op[1] not in ref:
                            want_exc = "KeyError"
                        else:
                            del ref[op[1]]
                        mname, args = ("__delitem__" if op[0] == "del" else "pop"), (op[1],)
                    elif op[0] == "clear":
                        ref.clear()
                        mname = "clear"
                    else:
                        items = [(k, fresh(n_)) for k, n_ in op[1]]
                        states, cur, failed = [], dict(ref), False
                        for k, v in items:
                            shape = next(iter(cur.values()))[1] if cur else None
                            if shape is not None and shape != v.shape[0]:
                                failed = True
                                break
                            cur[k] = (v.origin, v.shape[0])
                        if failed:
                            want_exc = "ValueError"
                            allowed = [dict(before), dict(cur)]      # atomic refusal, or the items before the bad one applied
                        else:
                            ref = cur
                        mname, args = "update", (dict(items),)
                    try:
                        call_method(tree, hooks, g, mname, *args)
                        got_exc = None
                    except Raised as e:
                        got_exc = e.name
                    if want_exc:
                        ref = before if allowed is None else None
                    st = group_state(tree, hooks, g)
                    got = {k: (v[0], v[1][0]) for k, v in st.items()}
                    names_ok = all(v[2] == k for k, v in st.items())
                    ok_state = (list(got.items()) == list(ref.items())) if ref is not None else any(list(got.items()) == list(s_.items()) for s_ in allowed)
                    if got_exc != want_exc or not ok_state or not names_ok:
                        bad.append("after %s: %s, group %s (required %s, group %s)" % (
                            " ; ".join(o[0] + str(o[1:]) for o in seq[:step + 1]), "raises " + got_exc if got_exc else "accepted", {k: v[1] for k, v in got.items()},
                            "raises " + want_exc if want_exc else "accepted", {k: v[1] for k, v in (ref if ref is not None else allowed[0]).items()}))
                        break
                    if ref is None:
                        ref = got
            except (Raised, ProgramRaised) as e:
                bad.append("%s raises %s" % (seq, e))
            except ERR as e:
                unres.append("%s: %s" % (seq, e))
            if len(bad) > 20 or len(unres) > 5:
                break
    construct = "%s::history-space[all sequences of up to %d operations over %d operations]" % (DG_Q, depth, len(alphabet))
    if unres:
        run.unresolved(construct, "src/osyris/core/datagroup.py", "cannot fold %d sequences, e.g. %s" % (len(unres), unres[0]))
    else:
        run.ob(construct, not bad, "src/osyris/core/datagroup.py", ("%d sequences wrong, e.g. " % len(bad) + bad[0]) if bad else
               "%d sequences (%d steps) agree with the reference dictionary with the insertion gate" % (nseq, nsteps),
               "some sequence of set/del/pop/clear/update leaves a mis-shaped, misnamed, lost or reordered member, or a refusal changes the group")
