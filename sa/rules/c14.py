"""C14 — particle and sink tables are loaded completely, typed and scaled correctly."""
from __future__ import annotations

from . import io_rules as io
from . import io_rules2 as io2
from . import dg_rules as dg

EXPLANATION = (
    "Static rules: (R1) the particle header is interpreted with symbolic counters: nparticles is decoded from the third "
    "record, the five following records are skipped BY THEIR OWN LENGTH MARKERS (symbolic lengths), and variable ivar is "
    "decoded as nparticles items of its descriptor type at the position the layout gives; (R2) read and skip branches have "
    "the same counter effect with a symbolic type character; the byte_size table covers d/i/b; (R3) row alignment: one "
    "piece per file per read variable, pieces concatenated in insertion order for all variables alike, nparticles "
    "accumulated once per file; (R4) sink parsing: header lines = skiprows, atleast_2d, m/l/t bound to mass/length/time, "
    "column/key/unit pairing with scale/label pairing, both unit dialects; (R5) missing sink file -> no group, empty file -> "
    "empty group, kept by an `is not None` test (an empty Datagroup is falsy); (R6) sort on load through Datagroup.sortby "
    "(one permutation for all members) after assembly.")
NOT_DECIDED = "CSV number parsing; dtype of integer/byte columns after scaling (they become float64)"
TRUSTED = ("CPython ast", "S1 particle layout", "numpy.loadtxt semantics")
TECHNIQUE = "static analysis: polynomial interpretation of the particle header bookkeeping against the layout; path and pairing rules"

from . import loader_folds as lfold
from . import io_folds as iof
from . import layout_folds as lay


def r1_r2(run, tree):
    run.rule("C14.R1", "particle header layout; typed read/skip agreement", "D1 + S1", "S1", floor=5)
    lay.check_part_header(run, tree)
    lay.check_record_locator(run, tree)


def r3(run, tree):
    run.rule("C14.R3", "row alignment across variables", "path rule", "", floor=3)
    lay.check_part_header(run, tree)


def r4_r5(run, tree):
    run.rule("C14.R4", "sink parsing; empty vs missing", "path + pairing rules", "", floor=8)
    iof.check_sink(run, tree)
    lay.check_bodies(run, tree, aspects=("values",))
    lay.check_part_header(run, tree)


def r6(run, tree):
    run.rule("C14.R6", "sort on load", "path rule", "", floor=3)
    lfold.check_load(run, tree)
    from . import core_folds as cf
    cf.check_group_indexing(run, tree)


RULES = [r1_r2, r3, r4_r5, r6]
