"""C14 — particle and sink tables are loaded completely, typed and scaled correctly."""
from __future__ import annotations


EXPLANATION = '(R1) PartReader.read_header on a symbolic particle file (6 variables of types d/i/b, selected or not, first one NOT selected): npart, 5 opaque records skipped by their own length markers, each selected variable decoded on its own record; record locator; (R3) each selected variable gains exactly one piece per file over a two-file history (own record x own magnitude, own unit label), particle count accumulated; (R4) SinkReader.initialize on a text-file model (code-unit and legacy headers): column i <-> name i <-> unit i, x,y,z merged, table made 2-D, missing -> None, empty -> empty group, every load parses anew; mesh buffers: scale/label pairing; (R6) Loader.load applies sortby to requested present groups after assembly; Datagroup.sortby applies one permutation. The sink fold includes two datasets with different code units in one process; numpy.frombuffer is modelled with signedness (a byte record read as uint8 is reported). (R8) a reload starts from empty pieces; (R9) units table answers for keys added after the dataset was created; a file with a single sink is read column by column. R6 runs Datagroup.sortby over groups of one to three members. R1 includes a file without particles (npart = 0: every selected variable still gains an empty piece); R4 includes a legacy header whose units are the words m and t.'
NOT_DECIDED = "np.loadtxt's parsing of the numbers; particle families/tags semantics"
TRUSTED = ('CPython ast', 'S1 particle layout', 'the interpreter sa/models.py (ModelEval) and its library models')
TECHNIQUE = 'static analysis: abstract interpretation of the particle and sink readers over symbolic files'

from . import loader_folds as lfold
from . import io_folds as iof
from . import layout_folds as lay


def r1_r2(run, tree):
    run.rule("C14.R1", "particle header layout; typed read/skip agreement", "D1 + S1", "S1", floor=5)
    lay.check_part_header(run, tree)
    lay.check_record_locator(run, tree)


def r3(run, tree):
    run.rule("C14.R3", "row alignment across variables", "D1 fold of PartReader.read_header/read_variables on a symbolic file (S1 alignment by byte position)", "", floor=3)
    lay.check_part_header(run, tree)


def r4_r5(run, tree):
    run.rule("C14.R4", "sink parsing; empty vs missing; per-dataset code units", "D7 fold of SinkReader.initialize over header forms and histories (two loads, two datasets)", "", floor=8)
    iof.check_sink(run, tree)
    lay.check_bodies(run, tree, aspects=("values",))
    lay.check_part_header(run, tree)


def r6(run, tree):
    run.rule("C14.R6", "sort on load", "D7 folds of Loader.load (recording readers) and of Datagroup.sortby", "", floor=3)
    lfold.check_load(run, tree)
    from . import core_folds as cf
    cf.check_group_indexing(run, tree)


def r_init(run, tree):
    run.rule("C14.R7", "particle and sink readers are initialised exactly when selected and present (a group switched off after a load that had it on is not read again: no duplicated rows)",
             "D7 history fold of reader.initialize (shared with C13/C15)", "", floor=5)
    iof.check_reader_initialize(run, tree)


def r8_fresh_pieces(run, tree):
    run.rule("C14.R8", "a reload returns each particle once: every (re)initialisation of a reader starts each variable from empty pieces (shared with C04/C12/C13/C15)",
             "D7 fold of Reader.descriptor_to_variables with records of a previous load present", "", floor=3)
    iof.check_descriptor_to_variables(run, tree)


def r9_units_table(run, tree):
    run.rule("C14.R9", "particle and sink variables are scaled with the unit the dataset's table answers NOW: exact keys, wildcard keys (also ones added after the dataset was created), default (shared with C01.R13)",
             "D7 history fold of units/library.py::UnitsLibrary", "", floor=1)
    iof.check_units_library(run, tree)


def r10_units_handed_on(run, tree):
    from . import io_folds as iof
    run.rule("C14.R10", "every load hands the loader the dataset's own meta and its CURRENT units library (shared with C15.R9): units overridden with "
             "ds.meta[...] + ds.set_units() before load() scale the particle and sink columns", "D7 history fold of io/ramses.py::RamsesDataset.load", "", floor=4)
    iof.check_dataset_load_history(run, tree)


RULES = [r10_units_handed_on, r_init, r1_r2, r3, r4_r5, r6, r8_fresh_pieces, r9_units_table]


def t_part_space(run, tree):
    run.rule("C14.T1", "thorough: the particle header folded for every selection of six variables under two type assignments (128 cases): every decode aligned with the "
             "layout by byte position, skipped variables advance by their own type, pieces only for selected variables", "D1 fold of PartReader.read_header on a symbolic file", "S1", floor=256)
    lay.check_part_header_space(run, tree)


THOROUGH_RULES = [t_part_space]
