"""C14 — rules not implemented yet (fail closed)."""
EXPLANATION = "not implemented"
NOT_DECIDED = "everything"


def not_implemented(run, tree):
    run.rule("C14.R0", "stub")
    run.unresolved("stub", "", "rules for C14 are not implemented yet")


RULES = [not_implemented]
