"""Rules about Array.to / Vector.to and the numpy-dispatch helper methods (shared by C02, C07, C08, C10)."""
from __future__ import annotations

import ast

from ..flow import enumerate_paths
from ..peval import Evaluator, Unsupported
from ..poly import Poly, Rat, S, Fn
from ..source import AnalysisError, norm, const_value, walk_no_nested
from .common import (attr_chain, bind_call, calls_in, is_name, params, returns_of, root_name, single_return,
                     stores_in, flatten_targets)

ARRAY = "core/array.py::Array"
LOSSY = {"astype", "round", "around", "rint", "floor", "ceil", "trunc", "int", "float32", "float16", "int32", "int64",
         "clip", "abs", "absolute", "fabs"}


class ToEval(Evaluator):
    """D1 evaluation of Array.to in symbols A (values), OLD, NEW (units as positive scale factors).

    pint semantics used (S6): (k * u) is a Quantity of magnitude k in unit u;  q.to(v) has magnitude
    k * u/v and unit v;  q1 / q2 divides magnitudes and units;  .magnitude / .units project.
    A Quantity is modelled as (magnitude: Rat, unit: Rat) — its physical value is magnitude*unit.
    """

    def __init__(self, tree, fi, env):
        super().__init__(env)
        self.tree, self.fi = tree, fi
        self.lossy = []

    def ev_Name(self, node):
        if node.id in self.env:
            return self.env[node.id]
        r = self.tree.resolve_name(self.fi.module, node.id)
        if r is not None and not isinstance(r, tuple):
            return ("callable", getattr(r, "qual", str(r)))
        if isinstance(r, tuple) and r[0] == "value":
            return ("units-factory",)
        raise Unsupported("name %s" % node.id)

    def attr(self, node, base):
        a = node.attr
        if isinstance(base, tuple) and base[0] == "self":
            if a in ("unit", "_unit"):
                return ("unit", Rat(S("OLD")))
            if a in ("_array", "values"):
                return ("vals", Rat(S("A")))
            if a == "__class__":
                return ("ctor",)
            if a in ("name",):
                return ("name",)
            if a == "dtype":
                return ("dtype",)
        if isinstance(base, tuple) and base[0] == "qty":
            if a in ("magnitude", "m"):
                return base[1]
            if a in ("units", "u"):
                return ("unit", base[2])
            if a == "to":
                return ("qty.to", base)
        if isinstance(base, tuple) and base[0] == "vals" and a in LOSSY:
            return ("lossy", a, base)
        if isinstance(base, tuple) and base[0] == "vals" and a == "copy":
            return ("id", base)
        d = self.tree.dotted(self.fi.module, node)
        if d and d.startswith("numpy."):
            return ("np", d[6:])
        raise Unsupported("attribute %s on %r" % (a, base))

    def binop(self, node, op, a, b):
        def num(x):
            if isinstance(x, (int, float)):
                return Rat(Poly.const(x))
            return x
        a, b = num(a), num(b)
        if isinstance(op, ast.Mult):
            # number * unit -> quantity ; quantity * number ; vals * number
            if isinstance(a, Rat) and isinstance(b, tuple) and b[0] == "unit":
                return ("qty", a, b[1])
            if isinstance(b, Rat) and isinstance(a, tuple) and a[0] == "unit":
                return ("qty", b, a[1])
            if isinstance(a, tuple) and a[0] == "vals" and isinstance(b, Rat):
                return ("vals", a[1] * b)
            if isinstance(b, tuple) and b[0] == "vals" and isinstance(a, Rat):
                return ("vals", b[1] * a)
            if isinstance(a, tuple) and a[0] == "vals" and isinstance(b, tuple) and b[0] == "qty":
                return ("qty", a[1] * b[1], b[2])
            if isinstance(a, Rat) and isinstance(b, Rat):
                return a * b
            if isinstance(a, tuple) and a[0] == "qty" and isinstance(b, Rat):
                return ("qty", a[1] * b, a[2])
        if isinstance(op, ast.Div):
            if isinstance(a, tuple) and a[0] == "qty" and isinstance(b, tuple) and b[0] == "qty":
                return ("qty", a[1] / b[1], a[2] / b[2])
            if isinstance(a, tuple) and a[0] == "vals" and isinstance(b, Rat):
                return ("vals", a[1] / b)
            if isinstance(a, Rat) and isinstance(b, Rat):
                return a / b
            if isinstance(a, tuple) and a[0] == "unit" and isinstance(b, tuple) and b[0] == "unit":
                return ("qty", Rat(Poly.const(1)), a[1] / b[1])
        raise Unsupported("operator in %s" % norm(node))

    def compare(self, node, op, a, b):
        if isinstance(a, tuple) and isinstance(b, tuple) and a[0] == "unit" and b[0] == "unit":
            return ("units-equal?", isinstance(op, ast.Eq))
        raise Unsupported("comparison %s" % norm(node))

    def call(self, node, func, args, kwargs):
        if isinstance(func, tuple):
            if func[0] == "units-factory" or (func[0] == "callable" and func[1].endswith("Units")):
                a = args[0]
                if isinstance(a, tuple) and a[0] == "unit":
                    return a
                if a == "NEWARG":
                    return ("unit", Rat(S("NEW")))
                raise Unsupported("units(%r)" % (a,))
            if func[0] == "qty.to":
                q = func[1]
                tgt = args[0]
                if isinstance(tgt, tuple) and tgt[0] == "unit":
                    # magnitude' = magnitude * unit / target ; incompatible dimensions raise inside pint
                    return ("qty", q[1] * q[2] / tgt[1], tgt[1])
                raise Unsupported("Quantity.to(%r)" % (tgt,))
            if func[0] == "ctor" or (func[0] == "callable" and func[1].endswith("::Array")):
                vals = kwargs.get("values", args[0] if args else None)
                unit = kwargs.get("unit", args[1] if len(args) > 1 else None)
                return ("Array", vals, unit)
            if func[0] == "lossy":
                self.lossy.append(func[1])
                return func[2]
            if func[0] == "id":
                return func[1]
            if func[0] == "np":
                if func[1] in LOSSY or func[1] in ("asarray", "array") and "dtype" in kwargs:
                    self.lossy.append(func[1])
                    return args[0]
                if func[1] in ("asarray", "array", "ascontiguousarray"):
                    return args[0]
                if func[1] == "multiply" and len(args) == 2:
                    return self.binop(node, ast.Mult(), args[0], args[1])
        raise Unsupported("call %s" % norm(node.func))


def check_array_to(run, tree, also_identity=True):
    ci = tree.cls(ARRAY)
    fi = tree.method(ci, "to")
    construct = ARRAY + ".to"
    if fi is None:
        run.violated(construct, ci.module.rel, "Array.to is not defined", "any unit conversion")
        return
    run.analysed(fi)
    pn = params(fi)
    SELF, UNIT = pn[0], pn[1]
    # no store through self (effect-free)
    bad = []
    for tgt, st in stores_in(fi.node):
        for t in flatten_targets(tgt):
            if isinstance(t, (ast.Attribute, ast.Subscript)) and root_name(t) == SELF:
                bad.append(st)
    for n in walk_no_nested(fi.node):
        if isinstance(n, ast.AugAssign) and root_name(n.target) == SELF and not isinstance(n.target, ast.Name):
            bad.append(n)
        if isinstance(n, ast.Call) and isinstance(n.func, ast.Attribute) and root_name(n.func.value) == SELF and \
                n.func.attr in ("fill", "resize", "sort", "put", "itemset", "__imul__", "__itruediv__"):
            bad.append(n)
        if isinstance(n, ast.Call):
            for k in n.keywords:
                if k.arg == "out" and root_name(k.value) == SELF:
                    bad.append(n)
    run.ob(construct + "::receiver-not-written", not bad, fi.where(bad[0]) if bad else fi.where(),
           "Array.to %s" % ("stores through self: " + norm(bad[0])[:80] if bad else "has no store through self"),
           "a.to(u) changes a (values or unit)")
    # path evaluation
    paths = enumerate_paths(fi.node.body)
    n_conv, n_ident = 0, 0
    for path in paths:
        ev = ToEval(tree, fi, {SELF: ("self",), UNIT: "NEWARG"})
        outcome = None
        equal_branch = None
        try:
            for it in path:
                if it[0] == "stmt":
                    st = it[1]
                    if isinstance(st, ast.Assign) and len(st.targets) == 1 and isinstance(st.targets[0], ast.Name):
                        ev.env[st.targets[0].id] = ev.ev(st.value)
                    elif isinstance(st, ast.Return):
                        outcome = ev.ev(st.value) if st.value is not None else None
                    elif isinstance(st, ast.Expr):
                        pass
                    else:
                        raise Unsupported("statement %s" % norm(st)[:60])
                elif it[0] == "test":
                    v = ev.ev(it[1])
                    if isinstance(v, tuple) and v[0] == "units-equal?":
                        equal_branch = (it[2] == v[1])
                    else:
                        raise Unsupported("test %s" % norm(it[1]))
                elif it[0] == "exit" and it[1] == "raise":
                    outcome = "raise"
        except Unsupported as e:
            run.unresolved(construct + "::path", fi.where(), "cannot evaluate a path of Array.to: %s" % e)
            continue
        if outcome == "raise":
            continue
        if equal_branch is True:
            n_ident += 1
            ok = outcome == ("self",) or (isinstance(outcome, tuple) and outcome[0] == "Array" and
                                          outcome[1] == ("vals", Rat(S("A"))) and not ev.lossy)
            run.ob(construct + "::equal-units", outcome == ("self",), fi.where(),
                   "for an equal unit the result is %s" % ("self" if outcome == ("self",) else repr(outcome)),
                   "comparisons/arithmetic on int64 values above 2**53 in equal units (values must not take a float "
                   "round trip)")
            continue
        n_conv += 1
        if not (isinstance(outcome, tuple) and outcome[0] == "Array"):
            run.violated(construct + "::result", fi.where(), "conversion path returns %r" % (outcome,), "a.to(u)")
            continue
        vals, unit = outcome[1], outcome[2]
        want = Rat(S("A")) * Rat(S("OLD")) / Rat(S("NEW"))
        ok_vals = isinstance(vals, tuple) and vals[0] == "vals" and vals[1] == want
        run.ob(construct + "::ratio", ok_vals, fi.where(),
               "values of the result = %r (required A*OLD/NEW)" % (vals[1] if isinstance(vals, tuple) and len(vals) > 1 else vals),
               "a.to(u) scales by the inverse ratio (1 m -> 0.01 cm)")
        run.ob(construct + "::no-lossy-cast", not ev.lossy, fi.where(),
               "scaled values %s" % ("pass through " + ", ".join(ev.lossy) if ev.lossy else "are not cast or rounded"),
               "integer Array [1500] m -> km gives 1 instead of 1.5")
        run.ob(construct + "::result-unit", unit == ("unit", Rat(S("NEW"))), fi.where(),
               "result labelled with %r" % (unit,), "a.to(u).unit != u")
    if n_conv == 0:
        run.unresolved(construct + "::paths", fi.where(), "no conversion path found")
    if also_identity and n_ident == 0:
        run.violated(construct + "::equal-units", fi.where(),
                     "no identity shortcut: a conversion to an equal unit multiplies the values by a float ratio",
                     "Array([2**53+1]) == Array([2**53]) evaluates True: the right operand of every operator is passed "
                     "through .to() and int64 values above 2**53 are rounded")


# =============================================================================== helper methods of _wrap_numpy
class Tok:
    def __init__(self, kind):
        self.kind = kind

    def __repr__(self):
        return "<%s>" % self.kind


def check_wrap_helpers(run, tree):
    """_maybe_array / _maybe_unit / _extract_*: evaluated over operand kinds {Array, Quantity, ndarray, number}."""
    ci = tree.cls(ARRAY)
    kinds = ["Array", "Quantity", "ndarray", "number"]
    for mname, want in (("_maybe_array", {"Array": "raw:_array", "Quantity": "raw:magnitude", "ndarray": "same",
                                          "number": "same"}),
                        ("_maybe_unit", {"Array": "unitq:unit", "Quantity": "unitq:units", "ndarray": "same",
                                         "number": "same"})):
        fi = tree.method(ci, mname)
        construct = "%s.%s" % (ARRAY, mname)
        if fi is None:
            run.unresolved(construct, ci.module.rel, "helper %s not found" % mname)
            continue
        run.analysed(fi)
        pn = params(fi)
        ARG = pn[1]
        for kind in kinds:
            got = eval_helper(tree, fi, ARG, kind)
            ok = got == want[kind]
            fam = {"_maybe_array": "np.<f>(a, x) with x a %s: numpy receives %s" % (kind, got),
                   "_maybe_unit": "np.power(a, x)/np.multiply(a, x) with x a %s: the unit is derived from %s" % (kind, got)}[mname]
            run.ob("%s[%s]" % (construct, kind), ok, fi.where(), "for a %s argument returns %s (required %s)" % (
                kind, got, want[kind]), fam)
    # the tuple helpers map the per-argument helper over ALL arguments
    for mname, inner in (("_extract_arrays_from_args", "_maybe_array"), ("_extract_units", "_maybe_unit")):
        fi = tree.method(ci, mname)
        construct = "%s.%s" % (ARRAY, mname)
        if fi is None:
            run.unresolved(construct, ci.module.rel, "helper not found")
            continue
        ret = single_return(fi)
        ok = False
        if isinstance(ret, ast.Call) and is_name(ret.func, "tuple") and ret.args and isinstance(
                ret.args[0], (ast.GeneratorExp, ast.ListComp)):
            g = ret.args[0]
            gen = g.generators[0]
            ok = (len(g.generators) == 1 and not gen.ifs and is_name(gen.iter, params(fi)[1])
                  and isinstance(g.elt, ast.Call) and isinstance(g.elt.func, ast.Attribute)
                  and g.elt.func.attr == inner and len(g.elt.args) == 1 and norm(g.elt.args[0]) == norm(gen.target))
        run.ob(construct, ok, fi.where(), "maps %s over %s" % (inner, "every argument" if ok else "NOT every argument: "
                                                              + (norm(ret)[:80] if ret is not None else "?")),
               "an operand skipped by the extraction reaches numpy as an Array (infinite dispatch) or is ignored in the unit")


def eval_helper(tree, fi, ARG, kind):
    """Abstractly run _maybe_array/_maybe_unit for an argument of the given kind; return a description."""
    has_attr = {"Array": {"unit", "_array", "values", "name", "shape", "dtype"},
                "Quantity": {"units", "magnitude", "m", "u", "shape", "dtype"},
                "ndarray": {"shape", "dtype"}, "number": set()}[kind]

    def isinst(cls_node):
        names = []
        for e in (cls_node.elts if isinstance(cls_node, ast.Tuple) else [cls_node]):
            if isinstance(e, ast.Attribute) and e.attr == "__class__":
                names.append("Array")
            else:
                r = tree.resolve_expr(fi.module, e)
                if hasattr(r, "name"):
                    names.append(r.name)
                elif isinstance(r, tuple) and r[0] == "ext":
                    names.append(r[1].split(".")[-1])
                else:
                    names.append(norm(e))
        m = {"Array": {"Array", "Base"}, "Quantity": {"Quantity"}, "ndarray": {"ndarray"},
             "number": {"int", "float", "Number", "number"}}[kind]
        return any(n in m for n in names)

    for path in enumerate_paths(fi.node.body):
        feasible = True
        result = None
        for it in path:
            if it[0] == "test":
                t = it[1]
                val = None
                neg = False
                while isinstance(t, ast.UnaryOp) and isinstance(t.op, ast.Not):
                    neg = not neg
                    t = t.operand
                if isinstance(t, ast.Call) and is_name(t.func, "isinstance") and is_name(t.args[0], ARG):
                    val = isinst(t.args[1])
                elif isinstance(t, ast.Call) and is_name(t.func, "hasattr") and is_name(t.args[0], ARG):
                    val = const_value(t.args[1]) in has_attr
                if val is None:
                    return "unknown-test:" + norm(it[1])[:40]
                if neg:
                    val = not val
                if val != it[2]:
                    feasible = False
                    break
            elif it[0] == "stmt" and isinstance(it[1], ast.Return):
                result = it[1].value
        if not feasible:
            continue
        if result is None:
            return "None"
        if is_name(result, ARG):
            return "same"
        if isinstance(result, ast.Attribute) and is_name(result.value, ARG):
            return "raw:" + result.attr
        if isinstance(result, ast.BinOp) and isinstance(result.op, ast.Mult):
            for a, b in ((result.left, result.right), (result.right, result.left)):
                if const_value(a) in (1, 1.0) and isinstance(b, ast.Attribute) and is_name(b.value, ARG):
                    return "unitq:" + b.attr
        return "expr:" + norm(result)[:40]
    return "no-feasible-path"
