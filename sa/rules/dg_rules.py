"""Rules on core/datagroup.py and core/dataset.py shared by C06 and C20."""
from __future__ import annotations

import ast

from ..flow import enumerate_paths, iter_stmts
from ..peval import Evaluator, Model, Unsupported, RaisedInModel, ProgramRaised
from ..source import norm, const_value, walk_no_nested, AnalysisError
from .common import (is_name, params, single_return, returns_of, stores_in, flatten_targets, root_name, attr_chain,
                     body_wo_doc, conj_terms, alias_env, subst)

DG = "core/datagroup.py::Datagroup"
DS = "core/dataset.py::Dataset"


# =============================================================================== shape gate
def check_setitem_gate(run, tree):
    """Datagroup.__setitem__: the shape test + raise dominates every store; statements before it are pure."""
    ci = tree.cls(DG)
    fi = tree.method(ci, "__setitem__")
    if fi is None:
        run.violated(DG + ".__setitem__", ci.module.rel, "__setitem__ missing", "group['a'] = x")
        return
    run.analysed(fi)
    pn = params(fi)
    SELF, KEY, VAL = pn[0], pn[1], pn[2]
    n_store = 0
    aenv = alias_env(fi.node)
    for path in enumerate_paths(fi.node.body):
        gate_passed = False
        for it in path:
            if it[0] == "test":
                g = gate_polarity(subst(it[1], aenv), SELF, VAL)
                if g is not None and it[2] is False and g == "mismatch":
                    gate_passed = True
                if g is not None and it[2] is True and g == "match":
                    gate_passed = True
            elif it[0] == "stmt":
                st = it[1]
                if not gate_passed and helper_is_gate(tree, fi, st, SELF, VAL):
                    gate_passed = True
                    continue
                effects = stmt_effects(st, SELF, VAL)
                for eff in effects:
                    if eff == "container-store":
                        n_store += 1
                    if not gate_passed:
                        run.violated("%s.__setitem__::%s-before-gate" % (DG, eff), fi.where(st),
                                     "`%s` executes on a path that has not passed the shape test" % norm(st)[:70],
                                     "inserting an item of another length: the group (or the rejected value, renamed) is "
                                     "modified although the insertion must be refused")
    if n_store == 0:
        run.unresolved(DG + ".__setitem__::store", fi.where(), "no store into the backing dict found")
    else:
        run.holds(DG + ".__setitem__::gate-dominates-store", fi.where(), "%d store paths, all behind the shape test" % n_store)
    # what happens on mismatch: raise
    raises = any(helper_is_gate(tree, fi, st, SELF, VAL) for st in iter_stmts(fi.node.body))
    for path in enumerate_paths(fi.node.body):
        for it in path:
            if it[0] == "test" and gate_polarity(subst(it[1], aenv), SELF, VAL) == "mismatch" and it[2] is True and path[-1][1] == "raise":
                raises = True
    run.ob(DG + ".__setitem__::mismatch-raises", raises, fi.where(), "a shape mismatch %s" % (
        "raises" if raises else "does not raise"), "a mis-shaped value is silently ignored or accepted")
    # renaming to key
    renamed = any(isinstance(st, ast.Assign) and len(st.targets) == 1 and norm(st.targets[0]) == "%s.name" % VAL and
                  is_name(st.value, KEY) for st in iter_stmts(fi.node.body))
    run.ob(DG + ".__setitem__::renamed-to-key", renamed, fi.where(), "stored item %s" % (
        "is renamed to its key" if renamed else "keeps its old name"), "group['b'] = group['a'][...] keeps the name 'a'")
    check_shape_is_pure(run, tree)


def helper_is_gate(tree, fi, st, SELF, VAL):
    """`self._check(value)`: a method of the same class that raises on a shape mismatch on every path."""
    if not (isinstance(st, ast.Expr) and isinstance(st.value, ast.Call)):
        return False
    call = st.value
    if not (isinstance(call.func, ast.Attribute) and is_name(call.func.value, SELF)):
        return False
    callee = tree.resolve_call(fi, call)
    if callee is None or not hasattr(callee, "node") or callee.cls is None:
        return False
    hp = params(callee)
    # bind the helper's parameters to the call-site expressions (self stays self)
    env = {}
    vparam = None
    for i, a in enumerate(call.args):
        if i + 1 < len(hp):
            env[hp[i + 1]] = a
            if is_name(a, VAL):
                vparam = hp[i + 1]
    for k in call.keywords:
        if k.arg:
            env[k.arg] = k.value
            if is_name(k.value, VAL):
                vparam = k.arg
    if vparam is None:
        return False
    if hp[0] != SELF:
        env[hp[0]] = ast.Name(id=SELF, ctx=ast.Load())
    env.update({k: subst(v, env) for k, v in alias_env(callee.node).items()})
    ok_paths, bad = 0, 0
    for path in enumerate_paths(callee.node.body):
        if path[-1][1] == "raise":
            continue
        passed = False
        for it in path:
            if it[0] == "test":
                g = gate_polarity(subst(it[1], env), SELF, VAL)
                if (g == "mismatch" and it[2] is False) or (g == "match" and it[2] is True):
                    passed = True
            if it[0] == "stmt" and stmt_effects(it[1], hp[0], vparam):
                bad += 1
        if passed:
            ok_paths += 1
        else:
            bad += 1
    return ok_paths > 0 and bad == 0


def gate_polarity(test, SELF, VAL):
    """'mismatch' if test is true exactly when a non-empty group's shape differs from the value's shape."""
    terms = conj_terms(test)
    def is_ne(t):
        if not (isinstance(t, ast.Compare) and len(t.ops) == 1 and isinstance(t.ops[0], ast.NotEq)):
            return False
        sides = [t.left, t.comparators[0]]
        texts = [norm(x) for x in sides]
        if "%s.shape" % VAL not in texts:
            return False
        other = sides[1 - texts.index("%s.shape" % VAL)]
        # the group's shape: self.shape, or an attribute of self caching it (checked by the cached-state rule)
        return isinstance(other, ast.Attribute) and is_name(other.value, SELF) and "shape" in other.attr

    has_ne = any(is_ne(t) for t in terms)
    if has_ne:
        others = [t for t in terms if not is_ne(t)]
        # the only other accepted conjunct is "the group is not empty": self.shape / len(self) / self._container
        for o in others:
            if not (norm(o) in ("len(%s)" % SELF, "len(%s) > 0" % SELF, "%s._container" % SELF,
                                "len(%s._container)" % SELF, "len(%s._container) > 0" % SELF)
                    or (isinstance(o, ast.Attribute) and is_name(o.value, SELF) and "shape" in o.attr)):
                return None
        return "mismatch"
    if isinstance(test, ast.UnaryOp) and isinstance(test.op, ast.Not):
        inner = gate_polarity(test.operand, SELF, VAL)
        return {"mismatch": "match", "match": "mismatch"}.get(inner)
    return None


def stmt_effects(st, SELF, VAL):
    out = []
    for t in ([x for tg in st.targets for x in flatten_targets(tg)] if isinstance(st, ast.Assign) else
              [st.target] if isinstance(st, (ast.AugAssign, ast.AnnAssign)) else []):
        if isinstance(t, ast.Subscript) and norm(t.value) == "%s._container" % SELF:
            out.append("container-store")
        elif isinstance(t, (ast.Attribute, ast.Subscript)) and root_name(t) == SELF:
            out.append("self-store")
        elif isinstance(t, (ast.Attribute, ast.Subscript)) and root_name(t) == VAL:
            out.append("value-store")
    for n in ast.walk(st):
        if isinstance(n, ast.Call) and isinstance(n.func, ast.Attribute) and norm(n.func.value) == "%s._container" % SELF and \
                n.func.attr in ("update", "setdefault", "__setitem__"):
            out.append("container-store")
    return out


def check_shape_is_pure(run, tree):
    """Datagroup.shape is a function of the current members only (no cached state that deletions could leave stale)."""
    ci = tree.cls(DG)
    fi = tree.method(ci, "shape")
    if fi is None:
        run.unresolved(DG + ".shape", ci.module.rel, "shape property not found")
        return
    run.analysed(fi)
    SELF = params(fi)[0]
    other_state = set()
    for n in walk_no_nested(fi.node):
        if isinstance(n, ast.Attribute) and is_name(n.value, SELF):
            a = n.attr
            if a in ("_container", "keys", "values", "items", "__class__"):
                continue
            # attribute that is not a method / property of the class => instance state
            if tree.method(ci, a) is None:
                other_state.add(a)
    if not other_state:
        run.holds(DG + ".shape::derived-from-members", fi.where(), "shape reads only the backing dict")
        return
    # cached state: every method that changes the member set must maintain it
    for attr in sorted(other_state):
        lacking = []
        for mname, m in ci.methods.items():
            mutates = False
            for n in walk_no_nested(m.node):
                if isinstance(n, ast.Call) and isinstance(n.func, ast.Attribute) and norm(n.func.value) == "%s._container" % params(m)[0] \
                        and n.func.attr in ("__delitem__", "pop", "popitem", "clear", "update", "setdefault", "__setitem__"):
                    mutates = True
                if isinstance(n, (ast.Assign, ast.Delete)):
                    for t in (n.targets):
                        for tt in flatten_targets(t):
                            if isinstance(tt, ast.Subscript) and norm(tt.value) == "%s._container" % params(m)[0]:
                                mutates = True
            if not mutates:
                continue
            maintains = any(isinstance(t, ast.Attribute) and t.attr == attr and is_name(t.value, params(m)[0])
                            for tg, _ in stores_in(m.node) for t in flatten_targets(tg))
            if not maintains:
                lacking.append(mname)
        run.ob("%s.shape::cached-state[%s]" % (DG, attr), not lacking, fi.where(),
               "shape depends on the cached attribute %s; methods changing the member set without updating it: %s" % (
                   attr, lacking or "none"),
               "set an item, remove the last item with del/pop, then insert an item of another length: rejected although "
               "the group is empty")


# =============================================================================== single writer
def check_single_writer(run, tree, cls_qual=DG, backing="_container", allowed_store=("__setitem__",),
                        allowed_rebind=("__init__",)):
    ci = tree.cls(cls_qual)
    n_sites = 0
    for fi in tree.all_functions():
        SELFS = None
        for n in walk_no_nested(fi.node):
            tgt_list = []
            if isinstance(n, ast.Assign):
                tgt_list = [x for tg in n.targets for x in flatten_targets(tg)]
            elif isinstance(n, (ast.AugAssign, ast.AnnAssign)):
                tgt_list = [n.target]
            for t in tgt_list:
                if isinstance(t, ast.Subscript) and isinstance(t.value, ast.Attribute) and t.value.attr == backing:
                    n_sites += 1
                    ok = fi.cls is not None and fi.cls.qual == ci.qual and fi.name in allowed_store
                    run.ob("%s::store-into-%s@%s" % (cls_qual, backing, fi.qual), ok, fi.where(n),
                           "`%s`" % norm(n)[:80],
                           "an insertion path that bypasses the gate in __setitem__ (mis-shaped/mis-typed members, stale names)")
                if isinstance(t, ast.Attribute) and t.attr == backing:
                    n_sites += 1
                    ok = fi.cls is not None and fi.cls.qual == ci.qual and fi.name in allowed_rebind and \
                        isinstance(n, ast.Assign) and isinstance(n.value, ast.Dict) and not n.value.keys
                    run.ob("%s::rebind-%s@%s" % (cls_qual, backing, fi.qual), ok, fi.where(n), "`%s`" % norm(n)[:80],
                           "the backing dict is replaced wholesale without validation")
            if isinstance(n, ast.Call) and isinstance(n.func, ast.Attribute) and isinstance(n.func.value, ast.Attribute) and \
                    n.func.value.attr == backing and n.func.attr in ("update", "setdefault", "__setitem__", "__ior__"):
                n_sites += 1
                ok = fi.cls is not None and fi.cls.qual == ci.qual and fi.name in allowed_store and n.func.attr == "__setitem__"
                run.ob("%s::%s.%s@%s" % (cls_qual, backing, n.func.attr, fi.qual), ok, fi.where(n), "`%s`" % norm(n)[:80],
                       "bulk insertion bypasses the per-item gate: update() on an empty group accepts members of "
                       "different lengths")
    return n_sites


def check_insertion_via_setitem(run, tree, cls_qual, methods):
    """__init__/update/... insert through self[key] = value over ALL items of dict(*args, **kwargs)."""
    ci = tree.cls(cls_qual)
    for m in methods:
        fi = tree.method(ci, m)
        construct = "%s.%s::inserts-via-setitem" % (cls_qual, m)
        if fi is None:
            run.violated(construct, ci.module.rel, "%s missing" % m, "dict-style %s" % m)
            continue
        run.analysed(fi)
        SELF = params(fi)[0]
        ok = False
        for n in walk_no_nested(fi.node):
            if isinstance(n, ast.For) and isinstance(n.target, ast.Tuple) and len(n.target.elts) == 2:
                k, v = n.target.elts
                for st in n.body:
                    if isinstance(st, ast.Assign) and len(st.targets) == 1 and isinstance(st.targets[0], ast.Subscript) and \
                            is_name(st.targets[0].value, SELF) and norm(st.targets[0].slice) == norm(k) and \
                            norm(st.value) == norm(v):
                        it = n.iter
                        src = norm(it)
                        a = fi.node.args
                        var, kw = (a.vararg.arg if a.vararg else None), (a.kwarg.arg if a.kwarg else None)
                        direct = "dict(*%s, **%s).items()" % (var, kw)
                        if src == direct:
                            ok = True
                        elif isinstance(it, ast.Call) and isinstance(it.func, ast.Attribute) and it.func.attr == "items" and \
                                isinstance(it.func.value, ast.Name):
                            dname = it.func.value.id
                            for st2 in fi.node.body:
                                if isinstance(st2, ast.Assign) and is_name(st2.targets[0], dname) and \
                                        norm(st2.value) == "dict(*%s, **%s)" % (var, kw):
                                    ok = True
                        if any(isinstance(x, (ast.If, ast.Continue, ast.Break)) for x in n.body):
                            ok = False
        run.ob(construct, ok, fi.where(), "%s %s" % (m, "stores every item of dict(*args, **kwargs) with self[key] = value"
                                                     if ok else "does not insert every given item through __setitem__"),
               "%s accepts members that __setitem__ would reject, or drops some" % m)


# =============================================================================== indexing / sorting
def check_getitem_uniform(run, tree):
    ci = tree.cls(DG)
    fi = tree.method(ci, "__getitem__")
    run.analysed(fi)
    pn = params(fi)
    SELF, KEY = pn[0], pn[1]
    loops = [n for n in walk_no_nested(fi.node) if isinstance(n, ast.For)]
    construct = DG + ".__getitem__::one-index-for-all-members"
    if len(loops) != 1:
        run.unresolved(construct, fi.where(), "expected one loop over the members, found %d" % len(loops))
        return None
    lp = loops[0]
    over_all = norm(lp.iter) in ("%s.items()" % SELF, "%s._container.items()" % SELF)
    filt = any(isinstance(x, (ast.If, ast.Continue, ast.Break, ast.Try)) for x in ast.walk(lp) if x is not lp)
    key_rebound = any(is_name(t, KEY) for tg, _ in stores_in(lp) for t in flatten_targets(tg))
    store_ok = False
    via_setitem = False
    if isinstance(lp.target, ast.Tuple) and len(lp.target.elts) == 2:
        nm, val = lp.target.elts
        for st in lp.body:
            if isinstance(st, ast.Assign) and len(st.targets) == 1 and isinstance(st.targets[0], ast.Subscript) and \
                    norm(st.targets[0].slice) == norm(nm) and isinstance(st.value, ast.Subscript) and \
                    norm(st.value.value) == norm(val) and is_name(st.value.slice, KEY):
                store_ok = True
                via_setitem = isinstance(st.targets[0].value, ast.Name)
    ok = over_all and not filt and not key_rebound and store_ok
    run.ob(construct, ok, fi.where(lp),
           "loop over %s%s%s; element stored %s" % (norm(lp.iter), " with a filter" if filt else "",
                                                   ", index re-bound inside the loop" if key_rebound else "",
                                                   "as member[key] under the same name" if store_ok else "differently"),
           "group[mask] / group[perm]: a member is skipped or indexed with something else, so rows no longer correspond")
    # string keys return the member itself
    str_ok = False
    for n in walk_no_nested(fi.node):
        if isinstance(n, ast.If) and isinstance(n.test, ast.Call) and is_name(n.test.func, "isinstance") and is_name(
                n.test.args[0], KEY) and norm(n.test.args[1]) == "str":
            for st in n.body:
                if isinstance(st, ast.Return) and norm(st.value) == "%s._container[%s]" % (SELF, KEY):
                    str_ok = True
    run.ob(DG + ".__getitem__::string-key", str_ok, fi.where(), "string key %s" % (
        "returns the stored member" if str_ok else "is not a plain lookup"), "group['a'] is not the stored object",
           nontrivial=False)
    return via_setitem


def check_sortby(run, tree):
    ci = tree.cls(DG)
    fi = tree.method(ci, "sortby")
    construct = DG + ".sortby"
    if fi is None:
        run.violated(construct, ci.module.rel, "sortby missing", "load(sortby=...)")
        return
    run.analysed(fi)
    pn = params(fi)
    SELF, KEY = pn[0], pn[1]
    loops = [n for n in walk_no_nested(fi.node) if isinstance(n, ast.For)]
    if len(loops) != 1:
        run.unresolved(construct, fi.where(), "expected one loop over the members")
        return
    lp = loops[0]
    over_all = norm(lp.iter) in ("%s.keys()" % SELF, "list(%s.keys())" % SELF, "%s" % SELF, "list(%s)" % SELF,
                                 "%s._container" % SELF, "list(%s._container)" % SELF)
    filt = any(isinstance(x, (ast.If, ast.Continue, ast.Break, ast.Try)) for x in ast.walk(lp) if x is not lp)
    var = lp.target.id if isinstance(lp.target, ast.Name) else None
    perm_name = None
    store_ok = False
    for st in lp.body:
        if isinstance(st, ast.Assign) and len(st.targets) == 1 and norm(st.targets[0]) == "%s[%s]" % (SELF, var) and \
                isinstance(st.value, ast.Subscript) and norm(st.value.value) == "%s[%s]" % (SELF, var) and \
                isinstance(st.value.slice, ast.Name):
            perm_name = st.value.slice.id
            store_ok = True
    rebound_in_loop = perm_name is not None and any(is_name(t, perm_name) for tg, _ in stores_in(lp) for t in flatten_targets(tg))
    ok = over_all and not filt and store_ok and not rebound_in_loop
    run.ob(construct + "::same-permutation-for-all-members", ok, fi.where(lp),
           "loop over %s%s; each member re-indexed with %s%s" % (norm(lp.iter), " with a filter" if filt else "",
                                                                perm_name or "?", " (re-bound inside the loop)" if rebound_in_loop else ""),
           "sortby: one member (e.g. a Vector) keeps its old order, or each member is sorted by its own values")
    # the permutation is argsort of the key member, computed once before the loop
    perm_ok = False
    if perm_name is not None:
        for n in walk_no_nested(fi.node):
            if isinstance(n, ast.Assign) and len(n.targets) == 1 and is_name(n.targets[0], perm_name) and n not in list(ast.walk(lp)):
                src = norm(n.value)
                d = None
                for c in ast.walk(n.value):
                    if isinstance(c, ast.Call):
                        dd = tree.dotted(fi.module, c.func)
                        if dd == "numpy.argsort" and c.args and norm(c.args[0]) in ("%s[%s]" % (SELF, KEY), "%s[%s].values" % (SELF, KEY)):
                            kws = {k.arg for k in c.keywords}
                            d = "argsort" if not (kws - {"kind", "stable"}) else None
                perm_ok = d == "argsort"
    run.ob(construct + "::permutation-is-argsort-of-key", perm_ok, fi.where(), "permutation %s" % (
        "= argsort of the key member" if perm_ok else "is not numpy.argsort(self[key])"),
           "rows ordered by something other than the requested key")


# =============================================================================== dict delegation
DELEGATION = {
    "__iter__": ("__iter__", []), "__len__": ("__len__", []), "__delitem__": ("__delitem__", ["key"]),
    "keys": ("keys", []), "items": ("items", []), "values": ("values", []), "get": ("get", ["key", "default"]),
    "pop": ("pop", ["key"]), "clear": ("clear", []),
}
EQUIV = {"__iter__": ("iter({d})",), "__len__": ("len({d})",), "__delitem__": ()}


def check_delegation(run, tree, cls_qual, backing):
    ci = tree.cls(cls_qual)
    for m, (dm, _) in DELEGATION.items():
        fi = tree.method(ci, m)
        construct = "%s.%s" % (cls_qual, m)
        if fi is None or fi.cls.qual != ci.qual:
            run.violated(construct, ci.module.rel, "%s is not defined" % m, "dict protocol: %s" % m)
            continue
        run.analysed(fi)
        pn = params(fi)
        body = body_wo_doc(fi.node)
        d = "%s.%s" % (pn[0], backing)
        args = ", ".join(pn[1:])
        accepted = {"%s.%s(%s)" % (d, dm, args)}
        for e in EQUIV.get(m, ()):
            accepted.add(e.format(d=d))
        calls = []
        for st in body:
            v = st.value if isinstance(st, (ast.Return, ast.Expr)) else None
            if v is not None:
                calls.append(norm(v))
            elif isinstance(st, ast.Delete) and m == "__delitem__":
                calls.append("del:" + norm(st.targets[0]))
        if m == "__delitem__":
            accepted.add("del:%s[%s]" % (d, pn[1]))
        first_ok = bool(calls) and calls[0] in accepted
        needs_return = m not in ("__delitem__", "clear")
        returned = (not needs_return) or (len(body) >= 1 and isinstance(body[0], ast.Return))
        extra = len(body) > 1
        if m == "clear" and cls_qual == DS:
            # Dataset.clear also clears meta
            extra_ok = all(isinstance(st, ast.Expr) and norm(st.value) in ("%s.groups.clear()" % pn[0], "%s.meta.clear()" % pn[0])
                           for st in body)
            meta = any(isinstance(st, ast.Expr) and norm(st.value) == "%s.meta.clear()" % pn[0] for st in body)
            groups = any(isinstance(st, ast.Expr) and norm(st.value) == "%s.groups.clear()" % pn[0] for st in body)
            run.ob(construct, extra_ok and meta and groups, fi.where(), "clear() clears %s" % (
                "groups and meta" if meta and groups else "; ".join(calls)), "clear() leaves groups or metadata behind")
            continue
        run.ob(construct, first_ok and returned and not extra, fi.where(),
               "body: %s" % ("; ".join(calls) or norm(body[0])[:60] if body else "empty"),
               "%s does not behave like dict.%s (wrong arguments, missing return, extra effect)" % (m, dm))
    # membership: either __contains__ delegates or (absent) Python falls back to __iter__ — both fine
    fi = tree.method(ci, "__contains__")
    if fi is not None and fi.cls.qual == ci.qual:
        ret = single_return(fi)
        pn = params(fi)
        ok = ret is not None and norm(ret) in ("%s in %s.%s" % (pn[1], pn[0], backing), "%s.%s.__contains__(%s)" % (pn[0], backing, pn[1]))
        run.ob("%s.__contains__" % cls_qual, ok, fi.where(), "returns %s" % (norm(ret) if ret is not None else "?"),
               "`key in container` disagrees with the keys")


# =============================================================================== equality quantifier (D7 abstract cases)
class Elem0d(Model):
    """A 0-d osyris Array: len() == 0, therefore falsy whatever it holds."""

    def __bool__(self):
        return False

    def truth(self):
        return False


class Unknown(Exception):
    pass


class BoolAbs(Model):
    """Abstract boolean osyris Array/Vector: which elements are True — 'none', 'some', 'all' or 'unknown'."""

    def __init__(self, state, is_vector=False, raw=False):
        self.state, self.is_vector, self.raw = state, is_vector, raw

    # --- osyris Array semantics
    def __iter__(self):
        if self.raw:
            seq = {"none": [False, False], "some": [True, False], "all": [True, True]}.get(self.state)
            if seq is None:
                raise Unknown()
            return iter(seq)
        if self.is_vector:
            raise Unsupported("iteration over a Vector")
        return iter([Elem0d(), Elem0d()])

    def __bool__(self):
        if self.raw:
            raise Unsupported("truth value of an ndarray with more than one element is ambiguous")
        return True  # non-empty container: len() > 0

    def truth(self):
        return bool(self)

    @property
    def values(self):
        if self.is_vector:
            raise Unsupported("Vector has no .values")
        return BoolAbs(self.state, raw=True)

    @property
    def norm(self):
        return BoolAbs(self.state, is_vector=False)  # sqrt of OR over components: non-zero iff any component True

    @property
    def _xyz(self):
        if not self.is_vector:
            raise Unsupported("Array has no components")
        return {"x": BoolAbs(self.state), "y": BoolAbs("none" if self.state != "all" else "all")}

    def __invert__(self):
        return BoolAbs({"none": "all", "all": "none"}.get(self.state, self.state), self.is_vector, self.raw)

    def any(self):
        return np_any(self)

    def all(self):
        return np_all(self)


def np_any(x, *a, **k):
    if isinstance(x, BoolAbs):
        if not x.raw:
            return Elem0d()  # numpy dispatch returns a 0-d osyris Array: always falsy
        if x.state == "unknown":
            raise Unknown()
        return x.state != "none"
    if isinstance(x, list):
        return any(x)
    raise Unsupported("np.any(%r)" % (x,))


def np_all(x, *a, **k):
    if isinstance(x, BoolAbs):
        if not x.raw:
            return Elem0d()
        if x.state == "unknown":
            raise Unknown()
        return x.state == "all"
    if isinstance(x, list):
        return all(x)
    raise Unsupported("np.all(%r)" % (x,))


class NpModel(Model):
    any = staticmethod(np_any)
    all = staticmethod(np_all)

    @staticmethod
    def array_equal(a, b):
        raise Unsupported("array_equal on Arrays")

    @staticmethod
    def count_nonzero(x, *a, **k):
        if isinstance(x, BoolAbs) and x.raw and x.state != "unknown":
            return {"none": 0, "some": 1, "all": 2}[x.state]
        raise Unknown()


class MemberAbs(Model):
    """A member (Array or Vector) paired with its counterpart; diff in {'none','some','all'} elements differ;
    for Vectors norm_equal says whether the differing rows nevertheless have equal norms."""

    def __init__(self, diff, is_vector=False, norm_equal=False, projected=False):
        self.diff, self.is_vector, self.norm_equal, self.projected = diff, is_vector, norm_equal, projected

    def __ne__(self, other):
        if self.projected:  # comparing norms of vectors: loses the direction
            st = "none" if (self.diff == "none" or self.norm_equal) else self.diff
            return BoolAbs(st, is_vector=False)
        return BoolAbs(self.diff, is_vector=self.is_vector)

    def __eq__(self, other):
        ne = self.__ne__(other)
        return BoolAbs({"none": "all", "all": "none"}.get(ne.state, ne.state), ne.is_vector)

    __hash__ = None

    @property
    def norm(self):
        if self.is_vector:
            return MemberAbs(self.diff, False, self.norm_equal, projected=True)
        return self

    @property
    def values(self):
        if self.is_vector:
            raise Unsupported("Vector has no .values")
        return RawAbs(self)

    @property
    def shape(self):
        return (2,)


class RawAbs(Model):
    def __init__(self, m):
        self.m = m

    def __ne__(self, other):
        return BoolAbs(self.m.diff, raw=True)

    def __eq__(self, other):
        return BoolAbs({"none": "all", "all": "none"}.get(self.m.diff, self.m.diff), raw=True)

    __hash__ = None


class Keys(Model):
    def __init__(self, ks):
        self.ks = list(ks)

    def __eq__(self, o):
        return set(self.ks) == set(o.ks)

    def __ne__(self, o):
        return not self.__eq__(o)

    __hash__ = None

    def __iter__(self):
        return iter(self.ks)

    def __len__(self):
        return len(self.ks)


class DGAbs(Model):
    def __init__(self, members):
        self.members = members

    def keys(self):
        return Keys(self.members)

    def items(self):
        return list(self.members.items())

    def values(self):
        return list(self.members.values())

    def __getitem__(self, k):
        return self.members[k]

    def __iter__(self):
        return iter(self.members)

    def __len__(self):
        return len(self.members)

    @property
    def _container(self):
        return self.members


class EqEval(Evaluator):
    def ev_Name(self, node):
        if node.id in self.env:
            return self.env[node.id]
        if node.id in ("all", "any", "len", "set", "list", "sorted", "zip", "isinstance", "bool"):
            return {"all": all, "any": any, "len": len, "set": set, "list": list, "sorted": sorted, "zip": zip,
                    "bool": bool}.get(node.id) or (lambda *a: (_ for _ in ()).throw(Unsupported("isinstance")))
        if node.id in ("np", "numpy"):
            return NpModel()
        if node.id in ("True", "False", "None"):
            return {"True": True, "False": False, "None": None}[node.id]
        raise Unsupported("name %s" % node.id)

    def subscript(self, node, base, index):
        if isinstance(base, (DGAbs, dict)):
            return base[index]
        return super().subscript(node, base, index)

    def call(self, node, func, args, kwargs):
        try:
            return func(*args, **kwargs)
        except (Unsupported, Unknown):
            raise
        except TypeError as e:
            raise Unsupported("call %s: %s" % (norm(node.func), e))

    def truth(self, v, node=None):
        if isinstance(v, Model):
            t = getattr(v, "truth", None)
            if t is not None:
                return t()
            return bool(v)
        return super().truth(v, node)


EQ_CASES = [
    ("different key sets", lambda: (DGAbs({"a": MemberAbs("none")}), DGAbs({"b": MemberAbs("none")})), False),
    ("same keys, all members equal", lambda: _pair([("a", MemberAbs("none")), ("v", MemberAbs("none", True))]), True),
    ("one element of the last member differs", lambda: _pair([("a", MemberAbs("none")), ("b", MemberAbs("some"))]), False),
    ("one element of the first member differs", lambda: _pair([("a", MemberAbs("some")), ("b", MemberAbs("none"))]), False),
    ("every element of a member differs", lambda: _pair([("a", MemberAbs("all")), ("b", MemberAbs("none"))]), False),
    ("every element of every member differs", lambda: _pair([("a", MemberAbs("all")), ("b", MemberAbs("all"))]), False),
    ("a Vector member differs in one row", lambda: _pair([("a", MemberAbs("none")), ("v", MemberAbs("some", True))]), False),
    ("a Vector member differs by a norm-preserving change (component swap)",
     lambda: _pair([("a", MemberAbs("none")), ("v", MemberAbs("all", True, norm_equal=True))]), False),
    ("empty groups", lambda: (DGAbs({}), DGAbs({})), True),
]


def _pair(members):
    d = dict(members)
    return DGAbs(d), DGAbs(dict(d))


def check_eq_quantifier(run, tree):
    ci = tree.cls(DG)
    fi = tree.method(ci, "__eq__")
    construct = DG + ".__eq__"
    if fi is None or fi.cls.qual != ci.qual:
        run.violated(construct, ci.module.rel, "__eq__ is not defined: equality is object identity",
                     "two groups with identical contents compare unequal")
        return
    run.analysed(fi)
    for label, mk, want in EQ_CASES:
        a, b = mk()
        ev = EqEval({})
        c = "%s[%s]" % (construct, label)
        try:
            got = ev.run_function(fi.node, [a, b])
            got = ev.truth(got) if not isinstance(got, bool) else got
        except Unknown:
            run.violated(c, fi.where(), "the verdict depends on information the comparison has discarded (e.g. only the "
                         "norms of Vector members are compared)", "%s: must be %s" % (label, want))
            continue
        except RaisedInModel as e:
            run.violated(c, fi.where(e.node), "raises instead of returning %s" % want, label)
            continue
        except (ProgramRaised, KeyError) as e:
            run.violated(c, fi.where(), "raises %s instead of returning %s" % (e, want), label)
            continue
        except Unsupported as e:
            run.unresolved(c, fi.where(), "cannot evaluate __eq__ on the abstract case: %s" % e)
            continue
        run.ob(c, got == want, fi.where(), "returns %s, required %s" % (got, want),
               "two Datagroups with %s compare %s" % (label, "equal" if got else "unequal"))
