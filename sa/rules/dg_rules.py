"""Rules on core/datagroup.py and core/dataset.py shared by C06 and C20."""
from __future__ import annotations

import ast

from ..peval import Evaluator, Model, Unsupported, RaisedInModel, ProgramRaised
from ..source import norm

DG = "core/datagroup.py::Datagroup"
DS = "core/dataset.py::Dataset"


# =============================================================================== shape gate










# =============================================================================== single writer




# =============================================================================== indexing / sorting




# =============================================================================== dict delegation
DELEGATION = {
    "__iter__": ("__iter__", []), "__len__": ("__len__", []), "__delitem__": ("__delitem__", ["key"]),
    "keys": ("keys", []), "items": ("items", []), "values": ("values", []), "get": ("get", ["key", "default"]),
    "pop": ("pop", ["key"]), "clear": ("clear", []),
}
EQUIV = {"__iter__": ("iter({d})",), "__len__": ("len({d})",), "__delitem__": ()}




# =============================================================================== equality quantifier (D7 abstract cases)
class Elem0d(Model):
    """A 0-d osyris Array: len() == 0, therefore falsy whatever it holds."""

    def __bool__(self):
        return False

    def truth(self):
        return False


class Unknown(Exception):
    pass


class BoolAbs(Model):
    """Abstract boolean osyris Array/Vector: which elements are True — 'none', 'some', 'all' or 'unknown'."""

    def __init__(self, state, is_vector=False, raw=False):
        self.state, self.is_vector, self.raw = state, is_vector, raw

    # --- osyris Array semantics
    def __iter__(self):
        if self.raw:
            seq = {"none": [False, False], "some": [True, False], "all": [True, True]}.get(self.state)
            if seq is None:
                raise Unknown()
            return iter(seq)
        if self.is_vector:
            raise Unsupported("iteration over a Vector")
        return iter([Elem0d(), Elem0d()])

    def __bool__(self):
        if self.raw:
            raise Unsupported("truth value of an ndarray with more than one element is ambiguous")
        return True  # non-empty container: len() > 0

    def truth(self):
        return bool(self)

    @property
    def values(self):
        if self.is_vector:
            raise Unsupported("Vector has no .values")
        return BoolAbs(self.state, raw=True)

    @property
    def norm(self):
        return BoolAbs(self.state, is_vector=False)  # sqrt of OR over components: non-zero iff any component True

    @property
    def _xyz(self):
        if not self.is_vector:
            raise Unsupported("Array has no components")
        return {"x": BoolAbs(self.state), "y": BoolAbs("none" if self.state != "all" else "all")}

    def __invert__(self):
        return BoolAbs({"none": "all", "all": "none"}.get(self.state, self.state), self.is_vector, self.raw)

    def any(self):
        return np_any(self)

    def all(self):
        return np_all(self)


def np_any(x, *a, **k):
    if isinstance(x, BoolAbs):
        if not x.raw:
            return Elem0d()  # numpy dispatch returns a 0-d osyris Array: always falsy
        if x.state == "unknown":
            raise Unknown()
        return x.state != "none"
    if isinstance(x, list):
        return any(x)
    raise Unsupported("np.any(%r)" % (x,))


def np_all(x, *a, **k):
    if isinstance(x, BoolAbs):
        if not x.raw:
            return Elem0d()
        if x.state == "unknown":
            raise Unknown()
        return x.state == "all"
    if isinstance(x, list):
        return all(x)
    raise Unsupported("np.all(%r)" % (x,))


class NpModel(Model):
    any = staticmethod(np_any)
    all = staticmethod(np_all)

    @staticmethod
    def array_equal(a, b):
        raise Unsupported("array_equal on Arrays")

    @staticmethod
    def count_nonzero(x, *a, **k):
        if isinstance(x, BoolAbs) and x.raw and x.state != "unknown":
            return {"none": 0, "some": 1, "all": 2}[x.state]
        raise Unknown()


class MemberAbs(Model):
    """A member (Array or Vector) paired with its counterpart; diff in {'none','some','all'} elements differ;
    for Vectors norm_equal says whether the differing rows nevertheless have equal norms."""

    def __init__(self, diff, is_vector=False, norm_equal=False, projected=False):
        self.diff, self.is_vector, self.norm_equal, self.projected = diff, is_vector, norm_equal, projected

    def __ne__(self, other):
        if self.projected:  # comparing norms of vectors: loses the direction
            st = "none" if (self.diff == "none" or self.norm_equal) else self.diff
            return BoolAbs(st, is_vector=False)
        return BoolAbs(self.diff, is_vector=self.is_vector)

    def __eq__(self, other):
        ne = self.__ne__(other)
        return BoolAbs({"none": "all", "all": "none"}.get(ne.state, ne.state), ne.is_vector)

    __hash__ = None

    @property
    def norm(self):
        if self.is_vector:
            return MemberAbs(self.diff, False, self.norm_equal, projected=True)
        return self

    @property
    def values(self):
        if self.is_vector:
            raise Unsupported("Vector has no .values")
        return RawAbs(self)

    @property
    def shape(self):
        return (2,)


class RawAbs(Model):
    def __init__(self, m):
        self.m = m

    def __ne__(self, other):
        return BoolAbs(self.m.diff, raw=True)

    def __eq__(self, other):
        return BoolAbs({"none": "all", "all": "none"}.get(self.m.diff, self.m.diff), raw=True)

    __hash__ = None


class Keys(Model):
    def __init__(self, ks):
        self.ks = list(ks)

    def __eq__(self, o):
        return set(self.ks) == set(o.ks)

    def __ne__(self, o):
        return not self.__eq__(o)

    __hash__ = None

    def __iter__(self):
        return iter(self.ks)

    def __len__(self):
        return len(self.ks)


class DGAbs(Model):
    def __init__(self, members):
        self.members = members

    def keys(self):
        return Keys(self.members)

    def items(self):
        return list(self.members.items())

    def values(self):
        return list(self.members.values())

    def __getitem__(self, k):
        return self.members[k]

    def __iter__(self):
        return iter(self.members)

    def __len__(self):
        return len(self.members)

    @property
    def _container(self):
        return self.members


class EqEval(Evaluator):
    def ev_Name(self, node):
        if node.id in self.env:
            return self.env[node.id]
        if node.id in ("all", "any", "len", "set", "list", "sorted", "zip", "isinstance", "bool"):
            return {"all": all, "any": any, "len": len, "set": set, "list": list, "sorted": sorted, "zip": zip,
                    "bool": bool}.get(node.id) or (lambda *a: (_ for _ in ()).throw(Unsupported("isinstance")))
        if node.id in ("np", "numpy"):
            return NpModel()
        if node.id in ("True", "False", "None"):
            return {"True": True, "False": False, "None": None}[node.id]
        raise Unsupported("name %s" % node.id)

    def subscript(self, node, base, index):
        if isinstance(base, (DGAbs, dict)):
            return base[index]
        return super().subscript(node, base, index)

    def call(self, node, func, args, kwargs):
        try:
            return func(*args, **kwargs)
        except (Unsupported, Unknown):
            raise
        except TypeError as e:
            raise Unsupported("call %s: %s" % (norm(node.func), e))

    def truth(self, v, node=None):
        if isinstance(v, Model):
            t = getattr(v, "truth", None)
            if t is not None:
                return t()
            return bool(v)
        return super().truth(v, node)


EQ_CASES = [
    ("different key sets", lambda: (DGAbs({"a": MemberAbs("none")}), DGAbs({"b": MemberAbs("none")})), False),
    ("same keys, all members equal", lambda: _pair([("a", MemberAbs("none")), ("v", MemberAbs("none", True))]), True),
    ("one element of the last member differs", lambda: _pair([("a", MemberAbs("none")), ("b", MemberAbs("some"))]), False),
    ("one element of the first member differs", lambda: _pair([("a", MemberAbs("some")), ("b", MemberAbs("none"))]), False),
    ("every element of a member differs", lambda: _pair([("a", MemberAbs("all")), ("b", MemberAbs("none"))]), False),
    ("every element of every member differs", lambda: _pair([("a", MemberAbs("all")), ("b", MemberAbs("all"))]), False),
    ("a Vector member differs in one row", lambda: _pair([("a", MemberAbs("none")), ("v", MemberAbs("some", True))]), False),
    ("a Vector member differs by a norm-preserving change (component swap)",
     lambda: _pair([("a", MemberAbs("none")), ("v", MemberAbs("all", True, norm_equal=True))]), False),
    ("empty groups", lambda: (DGAbs({}), DGAbs({})), True),
]


def _pair(members):
    d = dict(members)
    return DGAbs(d), DGAbs(dict(d))


def check_eq_quantifier(run, tree):
    ci = tree.cls(DG)
    fi = tree.method(ci, "__eq__")
    construct = DG + ".__eq__"
    if fi is None or fi.cls.qual != ci.qual:
        run.violated(construct, ci.module.rel, "__eq__ is not defined: equality is object identity",
                     "two groups with identical contents compare unequal")
        return
    run.analysed(fi)
    for label, mk, want in EQ_CASES:
        a, b = mk()
        ev = EqEval({})
        c = "%s[%s]" % (construct, label)
        try:
            got = ev.run_function(fi.node, [a, b])
            got = ev.truth(got) if not isinstance(got, bool) else got
        except Unknown:
            run.violated(c, fi.where(), "the verdict depends on information the comparison has discarded (e.g. only the "
                         "norms of Vector members are compared)", "%s: must be %s" % (label, want))
            continue
        except RaisedInModel as e:
            run.violated(c, fi.where(e.node), "raises instead of returning %s" % want, label)
            continue
        except (ProgramRaised, KeyError) as e:
            run.violated(c, fi.where(), "raises %s instead of returning %s" % (e, want), label)
            continue
        except Unsupported as e:
            run.unresolved(c, fi.where(), "cannot evaluate __eq__ on the abstract case: %s" % e)
            continue
        run.ob(c, got == want, fi.where(), "returns %s, required %s" % (got, want),
               "two Datagroups with %s compare %s" % (label, "equal" if got else "unequal"))
