"""Leaf models for folding core/ code with ModelEval: Arrays, raw buffers, numbers-like operands."""
from __future__ import annotations

from ..models import Marker, ModelEval, PyObj, Raised
from ..peval import Model, Unsupported

ARRAY_Q = "core/array.py::Array"
VECTOR_Q = "core/vector.py::Vector"
DG_Q = "core/datagroup.py::Datagroup"
DS_Q = "core/dataset.py::Dataset"

OPS = {"__add__", "__sub__", "__mul__", "__truediv__", "__iadd__", "__isub__", "__imul__", "__itruediv__", "__lt__", "__le__",
       "__gt__", "__ge__", "__eq__", "__ne__", "__and__", "__or__", "__xor__", "__pow__", "__neg__", "__invert__", "__rmul__",
       "__rtruediv__", "__radd__", "__rsub__"}


def concrete_origin(o):
    """the python number an origin built from known numbers only denotes (('num', x), 0-d indexing of it, comparisons between such), else None"""
    import operator as _op
    if isinstance(o, bool) or isinstance(o, (int, float)):
        return o
    if isinstance(o, tuple) and len(o) == 2 and o[0] == "num" and isinstance(o[1], (int, float)):
        return o[1]
    if isinstance(o, tuple) and len(o) == 3 and o[0] == "idx" and o[2] in ((), ("()",), "()"):
        return concrete_origin(o[1])
    if isinstance(o, tuple) and len(o) == 3 and o[0] in ("<", "<=", ">", ">=", "==", "!="):
        a, b = concrete_origin(o[1]), concrete_origin(o[2])
        if a is None or b is None:
            return None
        return {"<": _op.lt, "<=": _op.le, ">": _op.gt, ">=": _op.ge, "==": _op.eq, "!=": _op.ne}[o[0]](a, b)
    return None


class NdFlags(Model):
    """ndarray.flags: attributes and the ["WRITEABLE"] spelling.  A token is an ordinary owning, writeable, contiguous buffer unless it
    was made read-only (np.broadcast_to views, memory maps opened 'r', arr.flags.writeable = False)"""
    _NAMES = {"WRITEABLE": "writeable", "W": "writeable", "OWNDATA": "owndata", "O": "owndata", "C_CONTIGUOUS": "c_contiguous", "C": "c_contiguous",
              "CONTIGUOUS": "c_contiguous", "F_CONTIGUOUS": "f_contiguous", "F": "f_contiguous", "ALIGNED": "aligned", "A": "aligned"}

    def __init__(self, owner):
        self.__dict__["_owner"] = owner

    def _get(self, name):
        o = self.__dict__["_owner"]
        if name == "writeable":
            return not o.__dict__.get("_readonly", False)
        if name in ("c_contiguous", "contiguous"):
            return bool(getattr(o, "contiguous", True))
        if name == "f_contiguous":
            return len(getattr(o, "shape", ())) <= 1 and bool(getattr(o, "contiguous", True))
        if name == "owndata":
            org = getattr(o, "origin", None)
            return not (isinstance(org, tuple) and org[:1] == ("idx",))
        if name == "aligned":
            return True
        raise Unsupported("ndarray.flags.%s" % name)

    def __getattr__(self, name):
        if name.startswith("_"):
            raise AttributeError(name)
        return self._get(name)

    def __setattr__(self, name, value):
        if name == "writeable":
            self.__dict__["_owner"].__dict__["_readonly"] = not value
            return
        raise Unsupported("ndarray.flags.%s = ..." % name)

    def __getitem__(self, key):
        if key not in self._NAMES:
            raise Raised("KeyError", None, "Unknown flag")
        return self._get(self._NAMES[key])


class RawTok(Model):
    """raw ndarray / number behind an Array"""
    kinds = ("ndarray",)

    @property
    def flags(self):
        return NdFlags(self)

    def __init__(self, origin, shape=(3,), dtype=None):
        self.origin, self.shape = origin, tuple(shape)
        if dtype is not None:
            self.dtype = dtype

    @property
    def dtype(self):
        """what the buffer holds: float64 unless the token was made with another dtype"""
        d = self.__dict__.get("_dtype")
        if d is None:
            from .array_folds import DT
            return DT("float64")
        return d

    @dtype.setter
    def dtype(self, d):
        if isinstance(d, str):
            from .array_folds import DT
            d = DT(d)
        self.__dict__["_dtype"] = d

    def __eq__(self, o):
        return isinstance(o, RawTok) and o.origin == self.origin

    def __hash__(self):
        return hash(repr(self.origin))

    def __getitem__(self, idx):
        return RawTok(("idx", self.origin, key_of(idx, self.shape)), idx_shape(self.shape, idx))

    def copy(self):
        return RawTok(("copy", self.origin), self.shape, self.__dict__.get("_dtype"))

    def item(self, *a):
        """ndarray.item(): a PYTHON scalar (numpy treats it as a weak operand: float32 data stay float32), not the buffer"""
        return Marker("pyscalar", self.origin)

    def tolist(self):
        return Marker("pyscalar", self.origin)

    # reductions to ONE python/numpy scalar whose value the abstraction does not know: a branch on it is explored both ways
    def all(self, *a, **k):
        if REDUCE_HOOK[0] is not None:
            return REDUCE_HOOK[0]("all", self)
        return Marker("pyscalar", ("all", self.origin))

    def any(self, *a, **k):
        if REDUCE_HOOK[0] is not None:
            return REDUCE_HOOK[0]("any", self)
        return Marker("pyscalar", ("any", self.origin))

    @property
    def ndim(self):
        return len(self.shape)

    def truth(self):
        """bool(ndarray): ambiguous for more than one element (numpy raises), the element's own truth otherwise (not known: explored)"""
        n = self.size
        if isinstance(n, int) and n > 1:
            raise Raised("ValueError", None, "The truth value of an array with more than one element is ambiguous. Use a.any() or a.all()")
        if n == 0:
            return False
        c = concrete_origin(self.origin)
        if c is not None:
            return bool(c)
        from ..models import decide
        return decide("truth of the array %r" % (self.origin,), "truth value of the array %r is not decided by the abstraction" % (self,))

    @property
    def size(self):
        n = 1
        for d in self.shape:
            if not isinstance(d, int):
                return Marker("pyscalar", ("size", self.origin))
            n *= d
        return n

    def astype(self, dtype, *a, **k):
        if k.get("copy") is False and repr(dtype) == repr(self.dtype):
            return self         # numpy: no copy when nothing has to change
        return RawTok(("astype", self.origin, repr(dtype)), self.shape, dtype)

    def _bin(self, op, o):
        # note: buffer * 1.0 is NOT the buffer (an integer buffer becomes float64: values above 2**53 are rounded)
        return RawTok((op, self.origin, getattr(o, "origin", o)), self.shape, "bool" if op in ("<", "<=", ">", ">=", "&", "|", "==", "!=") else None)

    def __mul__(self, o):
        return self._bin("*", o)

    def __add__(self, o):
        return self._bin("+", o)

    def __sub__(self, o):
        return self._bin("-", o)

    def __truediv__(self, o):
        return self._bin("/", o)

    def __neg__(self):
        return RawTok(("neg", self.origin), self.shape)

    def __rmul__(self, o):
        return RawTok(("*", getattr(o, "origin", o), self.origin), self.shape)

    def __radd__(self, o):
        return RawTok(("+", getattr(o, "origin", o), self.origin), self.shape)

    def __lt__(self, o):
        return self._bin("<", o)

    def __le__(self, o):
        return self._bin("<=", o)

    def __gt__(self, o):
        return self._bin(">", o)

    def __ge__(self, o):
        return self._bin(">=", o)

    def __and__(self, o):
        return self._bin("&", o)

    def __or__(self, o):
        return self._bin("|", o)

    def __invert__(self):
        return RawTok(("~", self.origin), self.shape, "bool")

    def __len__(self):
        if not self.shape:
            raise TypeError("len() of unsized object")
        return self.shape[0] if isinstance(self.shape[0], int) else 3

    @property
    def T(self):
        return RawTok(("T", self.origin), self.shape)

    def take(self, idx, *a, **k):
        return RawTok(("take", self.origin, getattr(idx, "origin", idx)), ("sel",))

    def __repr__(self):
        return "Raw(%r)" % (self.origin,)


REDUCE_HOOK = [None]  # a fold that knows how many elements of its masks are true answers mask.all() / mask.any() through this
RAW_UNITS = [False]   # when set, Array.values yields ("raw", origin, unit): the number expressed in the Array's own unit
INTERN = {}      # large index expressions -> short names (hash-consing keeps origin trees small)
INTERN_REV = {}


def intern(o):
    r = repr(o)
    if len(r) <= 160:
        return o
    if r not in INTERN:
        INTERN[r] = ("sel#", len(INTERN))
        INTERN_REV[INTERN[r]] = o
    return INTERN[r]


def unintern(o):
    if isinstance(o, tuple) and len(o) == 2 and o[0] == "sel#":
        return INTERN_REV.get(o, o)
    return o


def slice_key(shape, idx):
    """what a slice selects: for an axis of known length the tuple of selected rows (so that slice(None, None, -1), slice(n-1, None, -1)
    and any other spelling of the same selection are one key), otherwise the slice's own fields"""
    n = shape[0] if shape else None
    if isinstance(n, int) and not isinstance(n, bool) and all(x is None or (isinstance(x, int) and not isinstance(x, bool)) for x in (idx.start, idx.stop, idx.step)):
        return ("rows", tuple(range(n)[idx]))
    return ("slice", idx.start, idx.stop, idx.step)


class BoolList(list):
    """a python list of booleans used as an index: equal only to a list of BOOLEANS (python's True == 1 would equate a mask with row numbers)"""

    def __eq__(self, o):
        return isinstance(o, list) and len(o) == len(self) and all(isinstance(b, bool) and a is b for a, b in zip(self, o))

    def __ne__(self, o):
        return not self.__eq__(o)

    __hash__ = None


def key_of(idx, shape=None):
    if isinstance(idx, RawTok) and isinstance(idx.origin, tuple) and len(idx.origin) == 2 and idx.origin[0] == "list" and isinstance(idx.origin[1], tuple):
        # numpy.asarray(<python list>) used as an index selects what the list itself selects (a list of booleans is a mask)
        vals = list(idx.origin[1])
        return BoolList(vals) if vals and all(isinstance(b, bool) for b in vals) else vals
    if isinstance(idx, (RawTok, ArrTok)):
        return intern(idx.origin)
    if isinstance(idx, slice):
        return slice_key(shape, idx) if shape is not None else ("slice", idx.start, idx.stop, idx.step)
    if hasattr(idx, "origin") and not isinstance(idx, PyObj):
        return intern(idx.origin)
    return idx


def idx_shape(shape, idx):
    if isinstance(idx, int):
        return shape[1:]
    if isinstance(idx, slice) and shape:
        k = slice_key(shape, idx)
        if k[0] == "rows":
            return (len(k[1]),) + tuple(shape[1:])
    if isinstance(idx, (RawTok, ArrTok)):
        return tuple(idx.shape) + tuple(shape[1:])
    return ("sel",) + tuple(shape[1:])


class UnitTok(Model):
    def truth(self):
        return True          # a pint Unit object is always truthy (no __bool__/__len__)

    kinds = ("Unit",)

    def __init__(self, name):
        self.name = name

    def __rmul__(self, k):
        """k * unit -> a quantity token (defined here so that it does not depend on which fold modules were imported)"""
        from .map_folds import QT
        return QT("unit:%s" % (self.name,), self)

    def __eq__(self, o):
        return isinstance(o, UnitTok) and o.name == self.name

    def __ne__(self, o):
        return not self.__eq__(o)

    def __hash__(self):
        return hash(self.name)

    def mono(self):
        """{base unit: exponent}: names of the form a*b/c are parsed, anything else is an atomic unit"""
        if isinstance(self.name, tuple) and self.name and self.name[0] == "mono":
            return dict(self.name[1])
        if self.name in ("dimensionless", "", None):
            return {}
        if isinstance(self.name, str) and all(ch.isalnum() or ch in "_*/ " for ch in self.name):
            out, sign, cur = {}, 1, ""
            for ch in self.name + "*":
                if ch in "*/":
                    if cur.strip():
                        out[cur.strip()] = out.get(cur.strip(), 0) + sign
                    sign = -1 if ch == "/" else (sign if False else 1) if ch == "*" else sign
                    cur = ""
                else:
                    cur += ch
            return {k: v for k, v in out.items() if v}
        return {self.name: 1}

    @staticmethod
    def from_mono(d):
        d = {k: v for k, v in d.items() if v}
        if not d:
            return UnitTok("dimensionless")
        if len(d) == 1 and next(iter(d.values())) == 1:
            return UnitTok(next(iter(d)))
        return UnitTok(("mono", tuple(sorted(d.items(), key=repr))))

    def __mul__(self, o):
        if isinstance(o, UnitTok):
            d = self.mono()
            for k, v in o.mono().items():
                d[k] = d.get(k, 0) + v
            return UnitTok.from_mono(d)
        return UnitTok(("*", self.name, getattr(o, "name", o)))

    def __truediv__(self, o):
        if isinstance(o, UnitTok):
            d = self.mono()
            for k, v in o.mono().items():
                d[k] = d.get(k, 0) - v
            return UnitTok.from_mono(d)
        return UnitTok(("/", self.name, getattr(o, "name", o)))

    def __repr__(self):
        return "Unit(%r)" % (self.name,)


class ArrTok(Model):
    """An osyris Array seen abstractly: origin (what data it denotes), unit, shape, name."""
    kinds = ("Array", "Base")

    def __init__(self, origin, unit="u", shape=(3,), name=""):
        self.origin = origin
        self.unit = unit if isinstance(unit, UnitTok) else UnitTok(unit)
        self.shape = tuple(shape)
        self.name = name
        self.dtype = "float64"
        self.ndim = len(self.shape)

    @property
    def values(self):
        # Array.values IS the buffer object: asking twice gives the same object (as long as the Array holds the same data)
        dt = self.dtype if self.dtype != "float64" else None
        key = (repr(self.origin), self.unit.name, bool(RAW_UNITS[0]), tuple(self.shape), repr(dt))
        cached = self.__dict__.get("_values_cache")
        if cached is not None and cached[0] == key:
            return cached[1]
        if RAW_UNITS[0]:
            tok = RawTok(("raw", self.origin, self.unit.name), self.shape, dt)
        else:
            tok = RawTok(self.origin, self.shape, dt)
        self.__dict__["_values_cache"] = (key, tok)
        return tok

    @values.setter
    def values(self, v):
        # in-place rebinding of the buffer: seen through every reference to this Array object
        self.origin = tok_origin(v)
        self.shape = tuple(getattr(v, "shape", self.shape))

    @property
    def _array(self):
        return RawTok(self.origin, self.shape)

    @_array.setter
    def _array(self, v):
        self.origin = tok_origin(v)
        self.shape = tuple(getattr(v, "shape", self.shape))

    @property
    def norm(self):
        return self

    @property
    def nbytes(self):
        return 8

    def copy(self):
        return ArrTok(("copy", self.origin), self.unit, self.shape, self.name)

    def to(self, unit):
        if getattr(unit, "name", unit) == self.unit.name:
            return self         # Array.to hands back the array itself when it already has the unit (established by C08.R1)
        return ArrTok(("to", self.origin, getattr(unit, "name", unit)), unit, self.shape, self.name)

    def reshape(self, *shape):
        return ArrTok(("reshape", self.origin), self.unit, shape, self.name)

    def __getitem__(self, idx):
        if isinstance(idx, PyObj):
            raise Raised("ValueError", None, "Cannot slice using a Vector")
        return ArrTok(("idx", self.origin, key_of(idx, self.shape)), self.unit, idx_shape(self.shape, idx), self.name)

    def __len__(self):
        return self.shape[0] if self.shape else 0

    def __getattr__(self, name):
        if name in OPS:
            return lambda *other: OpTok(name, self, other[0] if other else None)
        raise AttributeError(name)

    def __eq__(self, o):
        return OpTok("__eq__", self, o)

    def __ne__(self, o):
        return OpTok("__ne__", self, o)

    def __neg__(self):
        return OpTok("__neg__", self, None)

    def __invert__(self):
        return OpTok("__invert__", self, None)

    def __pow__(self, o):
        return OpTok("__pow__", self, o)

    def __add__(self, o):
        return OpTok("__add__", self, o)

    def __sub__(self, o):
        return OpTok("__sub__", self, o)

    def __mul__(self, o):
        return OpTok("__mul__", self, o)

    def __truediv__(self, o):
        return OpTok("__truediv__", self, o)

    # x op= y updates the Array IN PLACE (Array.__iadd__ & co. pass out=self): the object keeps its identity, every reference sees the new data
    def _inplace(self, op, o):
        new = OpTok(op, self, o)
        self.origin, self.unit = new.origin, new.unit
        return self

    def __iadd__(self, o):
        return self._inplace("__iadd__", o)

    def __isub__(self, o):
        return self._inplace("__isub__", o)

    def __imul__(self, o):
        return self._inplace("__imul__", o)

    def __itruediv__(self, o):
        return self._inplace("__itruediv__", o)

    def __rmul__(self, o):
        return OpTok("__rmul__", self, o)

    def __radd__(self, o):
        return OpTok("__radd__", self, o)

    def __rsub__(self, o):
        return OpTok("__rsub__", self, o)

    def __rtruediv__(self, o):
        return OpTok("__rtruediv__", self, o)

    def min(self, *a, **k):
        return OpTok("min", self, None)

    def max(self, *a, **k):
        return OpTok("max", self, None)

    def __lt__(self, o):
        return OpTok("__lt__", self, o)

    def __le__(self, o):
        return OpTok("__le__", self, o)

    def __gt__(self, o):
        return OpTok("__gt__", self, o)

    def __ge__(self, o):
        return OpTok("__ge__", self, o)

    def __and__(self, o):
        return OpTok("__and__", self, o)

    def __or__(self, o):
        return OpTok("__or__", self, o)

    __hash__ = None

    def same(self, o):
        return isinstance(o, ArrTok) and o.origin == self.origin and o.unit == self.unit

    def __repr__(self):
        return "Arr(%r,%r)" % (self.origin, self.unit.name)


def operand_origin(o):
    if isinstance(o, (ArrTok, RawTok)):
        return o.origin
    if isinstance(o, PyObj):
        return ("obj", o._cls.name)
    return o


def op_unit(op, lu, ru):
    """unit of the result of an Array operator, as established for core/array.py by C02/C07/C10"""
    ru = ru if isinstance(ru, UnitTok) else None
    if op in ("__mul__", "__rmul__", "__imul__"):
        return lu * ru if ru is not None else lu
    if op in ("__truediv__", "__itruediv__"):
        return lu / ru if ru is not None else lu
    if op == "__rtruediv__":
        return (ru if ru is not None else UnitTok("dimensionless")) / lu
    if op in ("__lt__", "__le__", "__gt__", "__ge__", "__eq__", "__ne__", "__and__", "__or__", "__xor__", "__invert__", "logical_not"):
        return UnitTok("dimensionless")
    if op in ("__pow__", "reciprocal", "sqrt"):
        return UnitTok(("unit-of", op, lu.name, getattr(ru, "name", None)))
    return lu          # sums, differences, negation, abs, min, max, selections keep the unit of the left operand


class OpTok(ArrTok):
    """Result of an Array operator: an Array whose origin records (op, left, right)."""

    def __init__(self, op, left, right):
        super().__init__(("op", op, left.origin, operand_origin(right)), op_unit(op, left.unit, getattr(right, "unit", None)), left.shape, "")
        if op in ("__lt__", "__le__", "__gt__", "__ge__", "__eq__", "__ne__", "__and__", "__or__", "__xor__", "__invert__", "logical_not"):
            self.dtype = "bool"


class NdTok(Model):
    kinds = ("ndarray",)

    def __init__(self, origin="nd"):
        self.origin = origin
        self.shape = (3,)


class QtyTok(Model):
    kinds = ("Quantity",)

    def __init__(self, origin="q"):
        self.origin = origin
        self.magnitude = RawTok(("magnitude", origin))
        self.units = UnitTok("qunit")


def array_factory(values=None, unit=None, name=""):
    """Model of Array.__init__ (verified separately by the constructor rule)."""
    if isinstance(values, (ArrTok, PyObj)):
        raise Raised("NotImplementedError", None, "Cannot create Array from Array or Vector.")
    if isinstance(values, QtyTok):
        if unit is not None:
            raise Raised("ValueError", None, "unit with Quantity")
        return ArrTok(values.magnitude.origin, values.units, (3,), name)
    if isinstance(values, RawTok):
        o = values.origin
        if RAW_UNITS[0]:
            # a number re-wrapped as an Array: quantity = number * unit
            uname = getattr(unit, "name", unit) if unit is not None else "dimensionless"
            if isinstance(o, tuple) and len(o) == 3 and o[0] == "raw" and o[2] == uname:
                o = o[1]
            elif _has_raw(o):
                o = ("wrapraw", o, uname)
        return ArrTok(o, unit if unit is not None else "dimensionless", values.shape, name)
    if isinstance(values, NdTok):
        return ArrTok(values.origin, unit if unit is not None else "dimensionless", values.shape, name)
    if isinstance(values, (int, float)):
        return ArrTok(("num", values), unit if unit is not None else "dimensionless", (), name)
    if isinstance(values, (list, tuple)):
        return ArrTok(("list", tuple(values)), unit if unit is not None else "dimensionless", (len(values),), name)
    if isinstance(values, Model) and hasattr(values, "origin"):
        return ArrTok(values.origin, unit if unit is not None else "dimensionless", getattr(values, "shape", (3,)) if isinstance(getattr(values, "shape", None), tuple) else (3,), name)
    raise Unsupported("Array(%r)" % (values,))


def _has_raw(o):
    if isinstance(o, tuple):
        return (len(o) == 3 and o[0] == "raw") or any(_has_raw(x) for x in o)
    return False


def units_factory(arg):
    if isinstance(arg, UnitTok):
        return arg
    if arg is None:
        return UnitTok("dimensionless")
    return UnitTok(arg)


def tok_origin(x):
    """origin of any model value (interpreted objects: class name + origins of their attributes)"""
    if hasattr(x, "origin"):
        return x.origin
    if isinstance(x, PyObj):
        return ("obj", x._cls.name, tuple(sorted((k, tok_origin(v)) for k, v in x._attrs.items() if hasattr(v, "origin") or isinstance(v, PyObj))))
    return x


def _dtname(d):
    """printable name of a dtype argument (a numpy dtype model, a python type, the interpreter's marker of a python type)"""
    data = getattr(d, "data", None)
    if data and isinstance(data[0], type):
        return data[0].__name__
    return getattr(d, "name", getattr(d, "__name__", d))


def _np_asarray(x, dtype=None, *a, **k):
    """np.asarray: the array itself unless a cast is needed (a cast allocates)"""
    if isinstance(x, RawTok):
        if dtype is None or repr(dtype) == repr(x.dtype) or getattr(dtype, "name", dtype) == getattr(x.dtype, "name", None):
            return x
        return x.astype(dtype)
    if isinstance(x, (list, tuple)) and dtype is not None and x and all(isinstance(e, bool) for e in x) and _dtname(dtype) not in ("bool", "bool_"):
        # a MASK written as a python list, cast to numbers: [True, False, True] becomes the row numbers [1, 0, 1] - another selection
        return RawTok(("booleans cast to %s" % _dtname(dtype), tuple(x)), (len(x),))
    if isinstance(x, (int, float, list, tuple)) or x is None:
        return x
    if isinstance(x, Model) and "ndarray" in getattr(x, "kinds", ()):
        xd = getattr(x, "dtype", None)
        if dtype is None or getattr(dtype, "name", dtype) in ("float64", getattr(xd, "name", xd)):
            return x
    raise Unsupported("np.asarray(%r, dtype=%r)" % (x, dtype))


def core_hooks(extra_ext=None):
    ext = {
        "numpy.argsort": lambda a, *r, **k: ArrTok(("argsort", tok_origin(a)), "dimensionless", getattr(a, "shape", (3,)), ""),
        "numpy.sum": lambda xs, *a, **k: sum(xs),
        "numpy.any": lambda x, *a, **k: x,
        "numpy.sqrt": lambda x, *a, **k: RawTok(("sqrt", x.origin), x.shape) if isinstance(x, RawTok) else x,
        "numpy.zeros": lambda *a, **k: RawTok(("zeros",)),
        "numpy.where": lambda c, *ab: RawTok(("where",)) if ab else tuple(RawTok(("nonzero", tok_origin(c), ax), ("sel",)) for ax in range(max(1, len(getattr(c, "shape", (1,)))))),
        "numpy.nonzero": lambda c: tuple(RawTok(("nonzero", tok_origin(c), ax), ("sel",)) for ax in range(max(1, len(getattr(c, "shape", (1,)))))),
        "numpy.flatnonzero": lambda c: RawTok(("flatnonzero", tok_origin(c)), ("sel",)),
        "numpy.argwhere": lambda c: RawTok(("argwhere", tok_origin(c)), ("sel", max(1, len(getattr(c, "shape", (1,)))))),
        "numpy.reciprocal": lambda x: OpTok("reciprocal", x, None) if isinstance(x, ArrTok) else x,
        "numpy.logical_not": lambda x: OpTok("logical_not", x, None) if isinstance(x, ArrTok) else x,
        "numpy.asarray": _np_asarray, "numpy.asanyarray": _np_asarray, "numpy.ascontiguousarray": _np_asarray,
        "numpy.isscalar": lambda x: isinstance(x, (bool, int, float, complex, str, bytes)) or ("generic" in getattr(x, "kinds", ()) and "ndarray" not in getattr(x, "kinds", ())),
        "numpy.array": lambda x, *a, **k: (_np_asarray(x, *a, **{kk: vv for kk, vv in k.items() if kk != "copy"}).copy() if isinstance(x, RawTok) and k.get("copy", True) else _np_asarray(x, *a, **k)),
    }
    if extra_ext:
        ext.update(extra_ext)
    return {"class": {ARRAY_Q: array_factory}, "ext": ext,
            "globals": {"units/units.py::units": units_factory, "__init__.py::units": units_factory, "units/__init__.py::units": units_factory}}


def make_vector(tree, tags, unit="u", shape=(3,), hooks=None):
    """Instantiate an interpreted Vector from component Arrays tagged `tags` (dict x/y/z -> tag)."""
    hooks = hooks or core_hooks()
    ev = ModelEval(tree, tree.func(VECTOR_Q + ".__init__"), {}, hooks)
    comps = {c: ArrTok(t, unit, shape) for c, t in tags.items()}
    return ev.instantiate(tree.cls(VECTOR_Q), [], comps, None), hooks


def vector_components(tree, v, hooks):
    """{c: ArrTok} of an interpreted Vector (through its own _xyz property)."""
    ev = ModelEval(tree, tree.func(VECTOR_Q + ".__init__"), {}, hooks)
    return ev.obj_getattr(v, "_xyz")
