"""plot/map.py::map interpreted (ModelEval) over token layers with symbolic numpy values: what reaches the resampling
kernel (slots, coordinates, grid geometry, pixel positions) and what each rendered layer is made of (slot bookkeeping,
per-layer depth reduction, thickness scaling, NaN mask) are read off the fold and compared with the specification."""
from __future__ import annotations

from ..models import ModelEval, PyObj, Raised, explore
from ..peval import Model, Unsupported, ProgramRaised
from ..poly import Poly
from ..source import AnalysisError
from ..symnp import Sym, Sc, Stack, np_hooks, ext_default, origin_of
from .core_models import RawTok, ArrTok, OpTok, UnitTok, core_hooks, make_vector, VECTOR_Q
from .layer_folds import LAYER_Q

ERR = (Unsupported, AnalysisError)
MAP = "plot/map.py::map"
N = 5  # cells


class QT(Model):
    """pint Quantity given by the user for dx/dy/dz"""
    kinds = ("Quantity",)

    def __init__(self, tag, unit):
        self.tag = tag
        self.units = unit if isinstance(unit, UnitTok) else UnitTok(unit)
        self.u = self.units

    def to(self, unit):
        u = unit if isinstance(unit, UnitTok) else UnitTok(unit)
        base = self.tag.split("@")[0]
        return QT("%s@%s" % (base, u.name if isinstance(u.name, str) else "derived"), u)

    @property
    def magnitude(self):
        return Sc.sym(self.tag)

    m = magnitude

    @property
    def origin(self):
        return ("qty", self.tag, self.units.name)

    def __rmul__(self, k):
        return QT("%r*%s" % (k, self.tag), self.units)

    __mul__ = __rmul__


class Recorder:
    def __init__(self):
        self.kernel = None
        self.render = None
        self.scatter = None
        self.direction = None


def build(tree, thick, ops=("mean", "sum"), with_dx=True, resolution=None, vector_2d=False, with_dy=True, direction="z", call_operation="max", reuse=None, call_mode=None, with_scatter=False):
    hooks = core_hooks()
    hooks["ext"].update(np_hooks({
        "numpy.abs": lambda x: OpTok("abs", x, None) if isinstance(x, ArrTok) else Sym(("abs", origin_of(x))),
        "numpy.arange": lambda n, *a, **k: RawTok(("arange", n), (n,)),
    }))
    from ..symnp import reduce_stack
    for nm in ("sum", "mean", "nansum", "nanmean", "max", "min", "nanmax", "nanmin", "amax", "amin", "any", "all", "prod", "median"):
        hooks["ext"]["numpy." + nm] = (lambda nm_: lambda x, *a, **k: reduce_stack(nm_, x, a, k))(nm)
    hooks["ext_default"] = ext_default
    from ..poly import Fn

    def smax(*a, **k):
        if all(isinstance(x, (int, float)) for x in a):
            return max(*a)
        return Sc(Poly.sym(Fn("max", *[Sc.lift(x).r if Sc.lift(x) is not None else repr(origin_of(x)) for x in a])))
    hooks["builtins"] = {"max": smax, "round": lambda x, *a: Sc(Poly.sym(Fn("round", Sc.lift(x).r))) if isinstance(x, Sc) else round(x, *a)}
    rec = Recorder()
    # ---- layers
    ci = tree.cls(LAYER_Q)
    ev0 = ModelEval(tree, tree.method(ci, "__init__"), {}, hooks)
    pos, _ = make_vector(tree, {c: "P." + c for c in "xyz"}, unit="m", shape=(N,), hooks=hooks)
    pos._attrs["_name"] = "position"
    vel, _ = make_vector(tree, {c: "W." + c for c in "xyz"}, unit="m/s", shape=(N,), hooks=hooks)
    vel._attrs["_name"] = "velocity"
    aux = {"position": pos, "dx": ArrTok("CS", "m", (N,), "dx")}
    scalar = ev0.instantiate(ci, [ArrTok("RHO", "g", (N,), "density")], {"aux": dict(aux), "operation": ops[0], "mode": "image"}, None)
    vector = ev0.instantiate(ci, [vel], {"aux": dict(aux), "operation": ops[1], "mode": "vec"}, None)
    scalar2 = ev0.instantiate(ci, [ArrTok("TEMP", "K", (N,), "temperature")], {"aux": dict(aux), "mode": "contour"}, None)   # operation from the call
    layers = [scalar, vector, scalar2] if reuse is None else reuse
    if with_scatter and reuse is None:
        # a scatter-mode layer (drawn on top, not binned) with an operation of its own between the image layers
        pts, _ = make_vector(tree, {c: "PTS." + c for c in "xyz"}, unit="m", shape=(N,), hooks=hooks)
        pts._attrs["_name"] = "position"
        layers = [scalar, ev0.instantiate(ci, [pts], {"aux": dict(aux), "mode": "scatter", "operation": "min"}, None), vector, scalar2]
    # ---- stubs
    def basis_stub(direction=None, data=None, dx=None, dy=None, origin=None):
        rec.direction = dict(direction=direction, data=data, dx=dx, dy=dy, origin=origin)
        b = PyObj(tree.cls("core/vector.py::VectorBasis"))
        for nm in "nuv":
            v, _ = make_vector(tree, {c: "%s.%s" % (nm.upper(), c) for c in "xyz"}, unit="dimensionless", shape=(), hooks=hooks)
            v._attrs["_name"] = nm
            b._attrs[nm] = v
        return b

    kparams = [a.arg for a in tree.func("plot/utils.py::evaluate_on_grid").node.args.args]

    def kernel_stub(*pos, **kw):
        # arguments bound to the kernel's own parameter names, however the call spells them (positionally or by keyword)
        if len(pos) > len(kparams) or any(n in kw for n in kparams[:len(pos)]):
            raise Raised("TypeError", None, "evaluate_on_grid() called with arguments that do not bind")
        kw = dict(zip(kparams, pos), **kw)
        rec.kernel = kw
        cv = kw.get("cell_values")
        if not isinstance(cv, Stack):
            raise Unsupported("cell_values handed to the kernel is %r" % (cv,))
        # the output has one (nz, ny, nx) grid per slot: nz = depth extent / depth spacing (an integer when the resolution is given)
        inner = None
        try:
            lo, sp = Sc.lift(kw.get("grid_lower_edge_in_new_basis_z")), Sc.lift(kw.get("grid_spacing_in_new_basis_z"))
            q = ((lo * -2) / sp).r.as_poly() if lo is not None and sp is not None else None
            if q is not None and q.is_const() and float(q.const_value()).is_integer():
                inner = (int(q.const_value()), "ny", "nx")
        except Exception:
            inner = None
        return Stack([Sym(("grid", k)) for k in range(len(cv))], inner)
    hooks["pkgfunc"] = {"plot/parser.py::get_norm": lambda norm=None, vmin=None, vmax=None: ("norm-object", norm, vmin, vmax),
                        "plot/direction.py::get_direction": basis_stub, "plot/utils.py::evaluate_on_grid": kernel_stub,
                        "plot/render.py::render": lambda **kw: setattr(rec, "render", kw) or {"ax": None, "fig": None}}
    dx = QT("DX@kpc", "kpc") if with_dx else None
    kwargs = dict(direction=direction, dx=dx, dy=QT("DY@kpc", "kpc") if with_dx and with_dy else None, dz=(QT("DZ@kpc", "kpc") if thick else None), plot=False,
                  operation=call_operation, resolution=resolution)
    if call_mode is not None:
        kwargs["mode"] = call_mode
    fi = tree.func(MAP)
    ev = ModelEval(tree, fi, {}, hooks)
    out = ev.invoke(fi, layers, kwargs, None)
    return rec, out, layers, hooks



def walk(o):
    yield o
    if isinstance(o, (tuple, list, frozenset)):
        for x in o:
            yield from walk(x)


def leaves(o):
    return {x for x in walk(o) if isinstance(x, str)}


def sels(o):
    return {x[2] if len(x) == 3 else None for x in walk(o) if isinstance(x, tuple) and len(x) == 3 and x[0] == "idx" and isinstance(x[1], (str, tuple))
            and not (isinstance(x[1], tuple) and x[1] and x[1][0] in ("arange", "idx"))}


def parse_reduced(o):
    """('reduce', op, ('grid', s), 0) possibly times a scalar -> (op, slot, scale origin | None)"""
    if isinstance(o, tuple) and o and o[0] == "reduce" and isinstance(o[2], tuple) and o[2][0] == "grid":
        return (o[1], o[2][1], None, o[3])
    if isinstance(o, tuple) and o and o[0] == "*" and len(o[1]) == 2:
        a, b = o[1]
        for x, y in ((a, b), (b, a)):
            r = parse_reduced(x)
            if r is not None and isinstance(y, tuple) and y and y[0] == "sc":
                return (r[0], r[1], y, r[3])
    return None


def basis_letters(o):
    return {x[0] for x in leaves(o) if len(x) == 3 and x[1] == "." and x[0] in "UVN"}


SCENARIOS = [
    ("thin map", False, ("mean", "sum"), {"x": 8, "y": 6}),
    ("thick map, depth resolution given", True, ("mean", "sum"), {"x": 8, "y": 6, "z": 4}),
    ("thick map, depth resolution derived", True, ("nansum", "mean"), {"x": 8, "y": 6}),
    ("thick map with a single depth sample", True, ("sum", "mean"), {"x": 8, "y": 6, "z": 1}),
    ("thick map with a scatter layer between the image layers", True, ("mean", "sum"), {"x": 8, "y": 6, "z": 4}, {"with_scatter": True}),
]
LAYOUT = [("scalar", 0, 1), ("vector", 1, 3), ("scalar", 4, 1)]


def thorough_scenarios():
    """thin/thick x every ordered pair of layer operations x the forms of the resolution dict"""
    import itertools
    out = []
    for thick in (False, True):
        for a, b in itertools.permutations(("mean", "sum", "nansum", "max", "min"), 2):
            for reso in ([{"x": 8, "y": 6}] if not thick else [{"x": 8, "y": 6}, {"x": 8, "y": 6, "z": 4}]):
                out.append(("%s map, operations %s/%s, resolution %s" % ("thick" if thick else "thin", a, b, sorted(reso)), thick, (a, b), reso))
    return out


def check_map(run, tree, aspects=("slots", "rendered", "geometry", "inputs"), depth_axis=0, scenarios=None):
    fi = tree.func(MAP)
    run.analysed(fi)
    # every scenario is explored under both answers of each test the abstraction does not decide (`if mask.all():`, `if n == sel.size:`)
    expanded = []
    for label, thick, ops, reso, *more in (scenarios or SCENARIOS):
        def attempt(thick=thick, ops=ops, reso=reso, more=more):
            reso_in = dict(reso)
            try:
                return ("ok", build(tree, thick, ops, resolution=reso_in, **(more[0] if more else {})), reso_in)
            except (Raised, ProgramRaised) as e:
                return ("raised", e, reso_in)
        try:
            branches = explore(attempt)
        except ERR as e:
            run.unresolved("%s[%s]" % (MAP, label), fi.where(), "cannot fold: %s" % e)
            continue
        for assume, res in branches:
            suffix = "" if not assume else "; assuming " + ", ".join("%s%s" % ("" if v else "NOT ", k.split("(")[0][:40].strip() + " " + k.rsplit("#", 1)[-1]) for k, v in sorted(assume.items()))
            expanded.append((label + suffix, thick, ops, reso, more, res))
    for label, thick, ops, reso, more, res in expanded:
        layer_ops = [ops[0], ops[1], "max"]
        try:
            reso_in = res[2]
            if res[0] == "raised":
                run.violated("%s[%s]" % (MAP, label), fi.where(), "raises %s" % res[1], "map() of a scalar, a vector and another scalar layer")
                continue
            rec, out, layers, hooks = res[1]
            kw = rec.kernel or {}
            cv = kw.get("cell_values")
            elems = [origin_of(e) for e in cv.elems] if isinstance(cv, Stack) else []
            div = Sc.sym("DX@m")
            # ---------------------------------------------------------------- slots handed to the kernel
            if "slots" in aspects:
                problems = []
                if len(elems) != 5:
                    problems.append("%d slots handed to the kernel for a scalar, a vector and a scalar layer (required 1 + 3 + 1)" % len(elems))
                else:
                    lv = [leaves(e) for e in elems]
                    if "RHO" not in lv[0] or (lv[0] & {"TEMP", "W.x", "W.y", "W.z"}):
                        problems.append("slot 0 is made of %s (required the first scalar layer)" % sorted(lv[0])[:6])
                    if "TEMP" not in lv[4] or (lv[4] & {"RHO", "W.x"}):
                        problems.append("slot 4 is made of %s (required the last scalar layer)" % sorted(lv[4])[:6])
                    for k, want in ((1, "U"), (2, "V")):
                        if not ({"W.x", "W.y", "W.z"} <= lv[k]) or basis_letters(elems[k]) != {want}:
                            problems.append("slot %d is made of %s projected on %s (required the vector layer projected on %s: %s is the horizontal, V the vertical image axis)" % (
                                k, sorted(x for x in lv[k] if x.startswith("W.")), sorted(basis_letters(elems[k])), want, "U"))
                    if not ({"W.x"} <= lv[3]) or (lv[3] & {"RHO", "TEMP"}):
                        problems.append("slot 3 (colour of the vector layer) is made of %s" % sorted(lv[3])[:6])
                    allsel = set()
                    for e in elems:
                        allsel |= sels(e)
                    for k_ in ("cell_positions_in_new_basis_x", "cell_positions_in_original_basis_x", "cell_sizes"):
                        allsel |= sels(origin_of(kw.get(k_)))
                    if len(allsel) != 1:
                        problems.append("values, coordinates and sizes of the cells are selected with %d different index sets" % len(allsel))
                run.ob("%s::kernel-slots[%s]" % (MAP, label), not problems, fi.where(), "; ".join(problems[:3]) or
                       "5 slots: scalar | vector.u, vector.v, colour | scalar; one cell selection for values, coordinates and sizes",
                       "a layer is resampled from another layer's data, vector components are projected on the wrong image axis, or values and "
                       "coordinates belong to different cells")
            # ---------------------------------------------------------------- what each rendered layer is made of
            if "rendered" in aspects:
                rl = out._attrs.get("layers") if isinstance(out, PyObj) else None
                problems = []
                if not isinstance(rl, list) or len(rl) != 3:
                    problems.append("%r layers returned" % (len(rl) if isinstance(rl, list) else rl,))
                else:
                    from ..poly import Fn
                    SZ = Sc.sym("DZ@m")
                    if reso.get("z") is not None:
                        zsp = (SZ / reso["z"]).origin
                    else:
                        xs_, ys_ = Sc.sym("DX@m") / reso["x"], Sc.sym("DY@m") / reso["y"]
                        zsp = (SZ / Sc(Poly.sym(Fn("round", (SZ / ((xs_ + ys_) * 0.5)).r)))).origin
                    for i, ((kind, first, n), op) in enumerate(zip(LAYOUT, layer_ops)):
                        item = rl[i] if isinstance(rl[i], dict) else {}
                        d = origin_of(item.get("data"))
                        if not (isinstance(d, tuple) and len(d) == 3 and d[0] == "masked"):
                            problems.append("layer %d is not masked where the map is empty: %r" % (i, d)[:200])
                            continue
                        m, body = d[1], d[2]
                        parts = [body] if kind == "scalar" else [x[1] if isinstance(x, tuple) and x and x[0] == "T" else x for x in body[1]] \
                            if isinstance(body, tuple) and body and body[0] == "stackT" else None
                        if parts is None or len(parts) != n:
                            problems.append("layer %d (%s) is built from %r" % (i, kind, body)[:200])
                            continue
                        want_scaled = thick and op in ("sum", "nansum")
                        for j, part in enumerate(parts):
                            r = parse_reduced(part)
                            if r is None:
                                problems.append("layer %d: component %d is %r" % (i, j, part)[:200])
                                continue
                            rop, slot, scale, axis = r
                            if slot != first + j:
                                problems.append("layer %d (%s) component %d is made of kernel slot %d (required %d)" % (i, kind, j, slot, first + j))
                            if rop != op:
                                problems.append("layer %d is reduced along the depth with %r (required the layer's own operation %r)" % (i, rop, op))
                            if axis != depth_axis:
                                problems.append("layer %d is reduced along axis %r of its cube (the depth axis of the kernel output is %d)" % (i, axis, depth_axis))
                            if (scale is not None) != want_scaled:
                                problems.append("layer %d (%s, %s): the reduction %s multiplied by the depth spacing (required: %s)" % (
                                    i, "thick" if thick else "thin", op, "is" if scale is not None else "is not", "yes" if want_scaled else "no"))
                            elif scale is not None and zsp is not None and scale != zsp:
                                problems.append("layer %d is multiplied by %s (required the depth spacing %s)" % (i, scale[1], zsp[1]))
                        nan_of = [x for x in walk(m) if isinstance(x, tuple) and x and x[0] == "isnan"]
                        lr = parse_reduced(nan_of[0][1]) if nan_of else None
                        if lr is None or lr[1] != 4:
                            problems.append("layer %d: mask %r (required: empty where the last kernel slot is NaN)" % (i, m)[:200])
                        u = item.get("unit")
                        base_u = UnitTok({0: "g", 1: "m/s", 2: "K"}[i])
                        want_u = base_u * UnitTok("m") if want_scaled else base_u
                        if not (isinstance(u, UnitTok) and u.mono() == want_u.mono()):
                            problems.append("layer %d: unit %r (required %s)" % (i, getattr(u, "name", u), "the layer's unit times the depth unit" if want_scaled else "the layer's own unit"))
                run.ob("%s::rendered-layers[%s]" % (MAP, label), not problems, fi.where(), "; ".join(problems[:4]) or
                       "each layer = its own slots, reduced along the depth with its own operation (%s), scaled by the depth spacing exactly for thick "
                       "sum/nansum, masked by the NaNs of the map" % "/".join(layer_ops),
                       "a layer with operation='mean' is summed (or scaled by the depth); a vector layer takes a component from the next layer; the unit "
                       "does not follow the scaling")
            # ---------------------------------------------------------------- grid geometry and axis pairing
            if "geometry" in aspects:
                problems = []
                pair = {"x": ("U", "DX@m", reso["x"]), "y": ("V", "DY@m", reso["y"]), "z": ("N", "DZ@m", reso.get("z"))}
                for ax, (letter, size, nres) in pair.items():
                    nb = origin_of(kw.get("cell_positions_in_new_basis_" + ax))
                    if basis_letters(nb) != {letter}:
                        problems.append("cell coordinate %s in the image basis is the projection on %s (required %s)" % (ax, sorted(basis_letters(nb)), letter))
                    ob_ = leaves(origin_of(kw.get("cell_positions_in_original_basis_" + ax)))
                    if not ("P." + ax in ob_ and not (ob_ & {"P." + c for c in "xyz" if c != ax})):
                        problems.append("original-basis coordinate %s is made of %s" % (ax, sorted(x for x in ob_ if x.startswith("P."))))
                    if ax == "z" and not thick:
                        continue
                    S = Sc.sym(size)
                    lo = kw.get("grid_lower_edge_in_new_basis_" + ax)
                    if not (isinstance(lo, Sc) and lo == (S * -0.5) / div):
                        problems.append("lower edge of the grid along %s is %r (required -%s/2 in kernel units)" % (ax, lo, size))
                    sp = kw.get("grid_spacing_in_new_basis_" + ax)
                    if nres is not None:
                        if not (isinstance(sp, Sc) and sp == S / nres / div):
                            problems.append("grid spacing along %s is %r (required %s/%d)" % (ax, sp, size, nres))
                    else:
                        from ..poly import Fn
                        xs, ys = Sc.sym("DX@m") / reso["x"], Sc.sym("DY@m") / reso["y"]
                        nz = Sc(Poly.sym(Fn("round", (S / ((xs + ys) * 0.5)).r)))
                        if not (isinstance(sp, Sc) and sp == S / nz / div):
                            problems.append("derived depth spacing is %r (required DZ / round(DZ / mean(xspacing, yspacing)))" % (sp,))
                # one length scale: every length-like argument is divided by the same number; half cell size
                for k_ in ("cell_positions_in_new_basis_x", "cell_positions_in_new_basis_y", "cell_positions_in_new_basis_z", "cell_positions_in_original_basis_x",
                           "cell_positions_in_original_basis_y", "cell_positions_in_original_basis_z", "cell_sizes", "grid_positions_in_original_basis"):
                    o = origin_of(kw.get(k_))
                    if not (isinstance(o, tuple) and len(o) == 3 and o[0] == "/" and o[2] == div.origin):
                        problems.append("%s reaches the kernel %s (required divided by the one length scale)" % (k_, "as %r" % (o,) if not isinstance(o, tuple) else "divided by %r" % (o[2],) if o[0] == "/" else "unscaled"))
                cs = origin_of(kw.get("cell_sizes"))
                halves = [x for x in walk(cs) if isinstance(x, tuple) and len(x) == 4 and x[0] == "op" and x[1] in ("__mul__", "__rmul__") and 0.5 in x[2:]] + \
                    [x for x in walk(cs) if isinstance(x, tuple) and len(x) == 4 and x[0] == "op" and x[1] == "__truediv__" and x[3] == 2]
                if "CS" not in leaves(cs) or not halves:
                    problems.append("cell_sizes handed to the kernel is %r (required half the cell size: the kernel compares |offset| with it)" % (cs,))
                # returned pixel coordinates
                for ax, idx_ in (("x", 0), ("y", 1)):
                    rv = origin_of(out._attrs.get(ax)) if isinstance(out, PyObj) else None
                    lin = [x for x in walk(rv) if isinstance(x, tuple) and x and x[0] == "linspace"]
                    if not lin or lin[0][3] != reso[ax]:
                        problems.append("returned %s coordinates are %r (required the %d pixel centres)" % (ax, rv, reso[ax]))
                # pixel positions: x-grid with u, y-grid with v, z-grid with n
                pp = origin_of(kw.get("grid_positions_in_original_basis"))
                terms = [t for t in walk(pp) if isinstance(t, tuple) and t and t[0] == "*" and any(
                    isinstance(x, tuple) and x and x[0] == "meshgrid" for x in walk(t))]
                seen = {}
                for t in terms:
                    idxs = {x[1] for x in walk(t) if isinstance(x, tuple) and x and x[0] == "meshgrid"}
                    if len(idxs) == 1:
                        seen.setdefault(next(iter(idxs)), set()).update(basis_letters(t))
                if seen != {0: {"U"}, 1: {"V"}, 2: {"N"}}:
                    problems.append("pixel positions pair grid axes with basis vectors as %s (required x-grid with u, y-grid with v, depth grid with n)" % (
                        {k: sorted(v) for k, v in sorted(seen.items())}))
                mg = [x for x in walk(pp) if isinstance(x, tuple) and x and x[0] == "meshgrid"]
                if mg:
                    args = mg[0][2]
                    want_lin = []
                    for ax in "xy":
                        letter, size, nres = pair[ax]
                        S = Sc.sym(size)
                        sp_ = S / nres
                        want_lin.append(("linspace", (S * -0.5 + sp_ * 0.5).origin, (S * 0.5 - sp_ * 0.5).origin, nres))
                    if thick and len(args) > 2:
                        from ..poly import Fn
                        S = Sc.sym("DZ@m")
                        if reso.get("z") is not None:
                            nz = reso["z"]
                            nzo = nz
                        else:
                            xs_, ys_ = Sc.sym("DX@m") / reso["x"], Sc.sym("DY@m") / reso["y"]
                            nz = Sc(Poly.sym(Fn("round", (S / ((xs_ + ys_) * 0.5)).r)))
                            nzo = nz.origin
                        zs_ = S / nz
                        wz = ("linspace", (S * -0.5 + zs_ * 0.5).origin, (S * 0.5 - zs_ * 0.5).origin, nzo)
                        if args[2] != wz:
                            problems.append("depth sample points are %s (required the centres of the nz depth bins over [-dz/2, dz/2]: %s)" % (args[2], wz))
                    if tuple(args[:2]) != tuple(want_lin) or mg[0][3] != "ij":
                        problems.append("pixel centres are %s indexing=%s (required the centres of %d x %d pixels spanning dx, dy)" % (args[:2], mg[0][3], reso["x"], reso["y"]))
                run.ob("%s::grid-geometry[%s]" % (MAP, label), not problems, fi.where(), "; ".join(problems[:4]) or
                       "image axes (x,y,depth) paired with (u,v,n), window (dx,dy,dz) and resolution per axis; pixel centres",
                       "the vertical resolution or window is used for the horizontal axis (non-square windows/resolutions), or pixels are placed along the "
                       "wrong basis vector")
            # ---------------------------------------------------------------- arguments untouched
            if "inputs" in aspects:
                problems = []
                if reso_in != reso:
                    problems.append("the caller's resolution dict is now %s (given %s)" % (reso_in, reso))
                run.ob("%s::inputs-untouched[%s]" % (MAP, label), not problems, fi.where(), "; ".join(problems) or "resolution dict unchanged",
                       "a second map with the same resolution dict inherits the derived depth resolution of the first", nontrivial=False)
        except ERR as e:
            run.unresolved("%s[%s]" % (MAP, label), fi.where(), "cannot fold: %s" % e)


# =============================================================================== one Layer object, two map() calls
def layer_state(tree, hooks, layer):
    return {k: (v if not isinstance(v, dict) else dict(v)) for k, v in layer._attrs.items() if k in ("mode", "operation", "norm", "vmin", "vmax", "bins", "weights", "kwargs")}


def check_map_history(run, tree):
    """the same Layer objects handed to two map() calls with different call-level options: the second call renders exactly what a call with fresh
    Layers renders, and the caller's Layers carry the same options before and after"""
    fi = tree.func(MAP)
    run.analysed(fi)
    for label, first, second in (("thick map with operation='nansum', then operation='mean'", dict(thick=True, call_operation="nansum"), dict(thick=True, call_operation="mean")),
                                 ("thick map with operation='nansum', then a thin map", dict(thick=True, call_operation="nansum"), dict(thick=False, call_operation="max"))):
        construct = "%s::layers[the same Layer objects in two calls: %s]" % (MAP, label)
        try:
            try:
                rec1, out1, layers, hooks = build(tree, ops=(None, "sum"), resolution={"x": 8, "y": 6}, **first)
                before = [layer_state(tree, hooks, l) for l in layers]
                rec2, out2, _, _ = build(tree, ops=(None, "sum"), resolution={"x": 8, "y": 6}, reuse=layers, **second)
                after = [layer_state(tree, hooks, l) for l in layers]
                rec3, out3, fresh, _ = build(tree, ops=(None, "sum"), resolution={"x": 8, "y": 6}, **second)
            except (Raised, ProgramRaised) as e:
                run.violated(construct, fi.where(), "raises %s" % e, "two maps of one Layer")
                continue

            def rendered(out):
                rl = out._attrs.get("layers") if isinstance(out, PyObj) else None
                return [(origin_of(l.get("data")), l.get("mode"), repr(l.get("unit"))) if isinstance(l, dict) else l for l in (rl or [])]
            problems = []
            if rendered(out2) != rendered(out3):
                diff = [i for i, (a, b) in enumerate(zip(rendered(out2), rendered(out3))) if a != b]
                problems.append("layers %s of the second call differ from the same call with fresh Layers: %s (fresh: %s)" % (
                    diff, [rendered(out2)[i][0] for i in diff][:1], [rendered(out3)[i][0] for i in diff][:1]))
            if before != after or before != [layer_state(tree, hooks, l) for l in fresh]:
                problems.append("the caller's Layers changed: %s -> %s" % ([b.get("operation") for b in before], [a.get("operation") for a in after]))
            run.ob(construct, not problems, fi.where(), "; ".join(problems) or "the second call renders what a call with fresh Layers renders; the caller's Layers are untouched",
                   "call-level options of one map() stick to the caller's Layer and change the next map of the same Layer (e.g. nansum turns 'no cell' into 0.0)")
        except ERR as e:
            run.unresolved(construct, fi.where(), "cannot fold: %s" % e)


# =============================================================================== what map() hands to get_direction
def check_map_direction_call(run, tree):
    """map() asks get_direction for the basis with the caller's direction, the first layer as data, the window width and HEIGHT (dy; dx when
    dy is not given) in the spatial unit, and the origin: 'top'/'side' take the angular momentum of the cells within that window"""
    fi = tree.func(MAP)
    run.analysed(fi)
    for label, thick, with_dy, direction in (("thick map, dx, dy, dz given", True, True, "top"), ("thin map, dx and dy given", False, True, "side"),
                                             ("thick map, dy omitted", True, False, "top"), ("thin map, axis letters", False, True, "xzy")):
        construct = "%s::get_direction-call[%s]" % (MAP, label)
        try:
            try:
                rec, out, layers, hooks = build(tree, thick, ("mean", "sum"), resolution={"x": 8, "y": 6}, with_dy=with_dy, direction=direction)
            except (Raised, ProgramRaised) as e:
                run.violated(construct, fi.where(), "raises %s" % e, "map(direction=%r)" % direction)
                continue
            d = rec.direction
            problems = []
            if d is None:
                problems.append("get_direction is not called for 3-D data")
            else:
                if d["direction"] != direction:
                    problems.append("direction handed over is %r (given %r)" % (d["direction"], direction))
                for k_, want in (("dx", "DX@m"), ("dy", "DY@m" if with_dy else "DX@m")):
                    got = getattr(d[k_], "tag", d[k_])
                    if got != want:
                        problems.append("%s handed over is %s (required %s: the window %s in the unit of the positions)" % (k_, got, want, "width" if k_ == "dx" else "height"))
                data = d["data"]
                arrs = data._attrs.get("arrays") if isinstance(data, PyObj) else data
                first = layers[0]._attrs.get("arrays")
                if not (data is layers[0] or (arrs is not None and (arrs is first or arrs == first))):
                    problems.append("data handed over is not the first layer")
                o = d["origin"]
                if not (isinstance(o, PyObj) and o._cls.qual == VECTOR_Q):
                    problems.append("origin handed over is %r" % (o,))
            run.ob(construct, not problems, fi.where(), "; ".join(problems[:3]) or "direction, first layer, window width and height (spatial unit), origin",
                   "'top'/'side' compute the angular momentum inside another sphere than the window's (e.g. the slab depth dz instead of the height dy)")
        except ERR as e:
            run.unresolved(construct, fi.where(), "cannot fold: %s" % e)


# =============================================================================== reach of every pre-selection mask
class NonLinear(Exception):
    pass


def cs_coeff(o):
    """numeric coefficient of the cell size CS in an expression that is affine in it (row selections are transparent)"""
    if isinstance(o, (int, float)) or o is None:
        return 0.0
    if isinstance(o, str):
        return 1.0 if o == "CS" else 0.0
    if isinstance(o, QT):
        return 0.0
    if isinstance(o, tuple) and o:
        h = o[0]
        if h == "idx" and len(o) == 3:
            return cs_coeff(o[1])
        if h in ("sc", "num", "arange", "zeros", "qty", "sel#"):
            return 0.0
        if h == "op" and len(o) == 4:
            op, a, b = o[1], o[2], o[3]
            if op in ("__add__", "__radd__", "__iadd__"):
                return cs_coeff(a) + cs_coeff(b)
            if op in ("__sub__", "__isub__"):
                return cs_coeff(a) - cs_coeff(b)
            if op == "__rsub__":
                return cs_coeff(b) - cs_coeff(a)
            if op == "__neg__":
                return -cs_coeff(a)
            if op in ("__mul__", "__rmul__", "__imul__"):
                return _mul(a, b)
            if op in ("__truediv__", "__itruediv__"):
                if isinstance(b, (int, float)) and b:
                    return cs_coeff(a) / b
                if cs_coeff(b) == 0.0 and cs_coeff(a) == 0.0:
                    return 0.0
                raise NonLinear("division by a non-constant")
        if h == "+" and len(o) == 2 and isinstance(o[1], tuple):
            return sum(cs_coeff(x) for x in o[1])
        if h == "*" and len(o) == 2 and isinstance(o[1], tuple):
            items = list(o[1])
            withcs = [x for x in items if cs_coeff(x) != 0.0]
            if not withcs:
                return 0.0
            if len(withcs) == 1 and all(_num(x) is not None for x in items if x is not withcs[0]):
                c = cs_coeff(withcs[0])
                for x in items:
                    if x is not withcs[0]:
                        c *= _num(x)
                return c
            raise NonLinear("the cell size is multiplied by a non-constant")
        if h in ("+", "-") and len(o) == 3:
            return cs_coeff(o[1]) + (cs_coeff(o[2]) if h == "+" else -cs_coeff(o[2]))
        if h == "*" and len(o) == 3:
            return _mul(o[1], o[2])
        if h == "/" and len(o) == 3:
            if isinstance(o[2], (int, float)) and o[2]:
                return cs_coeff(o[1]) / o[2]
        if h == "neg":
            return -cs_coeff(o[1])
        # any other node: fine if the cell size does not occur below it
        if not any(x == "CS" for x in walk(o)):
            return 0.0
    raise NonLinear("the cell size occurs under %r" % (o[0] if isinstance(o, tuple) and o else o,))


def _num(o):
    if isinstance(o, (int, float)):
        return float(o)
    if isinstance(o, tuple) and o and o[0] == "num" and isinstance(o[1], (int, float)):
        return float(o[1])
    return None


def _mul(a, b):
    ca, cb = cs_coeff(a), cs_coeff(b)
    na, nb = _num(a), _num(b)
    if ca == 0.0 and cb == 0.0:
        return 0.0
    if na is not None:
        return na * cb
    if nb is not None:
        return nb * ca
    raise NonLinear("the cell size is multiplied by a non-constant")


def mask_reach(o):
    """[(atom text, k)] for a selection mask: k = coefficient of the cell size by which the threshold exceeds the distance"""
    if isinstance(o, tuple) and o:
        if o[0] == "raw" and len(o) == 3:
            return mask_reach(o[1])
        if o[0] in ("&",) and len(o) == 3:
            return mask_reach(o[1]) + mask_reach(o[2])
        if o[0] == "&" and len(o) == 2 and isinstance(o[1], tuple):
            out = []
            for x in o[1]:
                out += mask_reach(x)
            return out
        if o[0] == "op" and len(o) == 4 and o[1] in ("__and__",):
            return mask_reach(o[2]) + mask_reach(o[3])
        cmpop = o[1] if o[0] == "op" and len(o) == 4 else o[0]
        a, b = (o[2], o[3]) if o[0] == "op" and len(o) == 4 else (o[1], o[2]) if len(o) == 3 else (None, None)
        if cmpop in ("__le__", "__lt__", "<=", "<"):
            return [(cmpop, cs_coeff(b) - cs_coeff(a))]
        if cmpop in ("__ge__", "__gt__", ">=", ">"):
            return [(cmpop, cs_coeff(a) - cs_coeff(b))]
    raise NonLinear("selection mask of an unknown form: %r" % (o[0] if isinstance(o, tuple) and o else o,))


def check_mask_reach(run, tree):
    """every mask that removes cells before the resampling keeps a cell whose centre is up to half its DIAGONAL away from the limit
    (a rotated cell reaches that far along any direction)"""
    import math
    from .core_models import INTERN_REV
    fi = tree.func(MAP)
    run.analysed(fi)
    need = 0.5 * math.sqrt(3)
    for label, thick in (("thin", False), ("thick", True)):
        construct = "%s::pre-selection-reach[%s]" % (MAP, label)
        try:
            try:
                rec, out, layers, hooks = build(tree, thick, ("mean", "sum"), resolution={"x": 8, "y": 6})
            except (Raised, ProgramRaised) as e:
                run.violated(construct, fi.where(), "raises %s" % e, "map()")
                continue
            keys = []

            def collect(o):
                if isinstance(o, tuple) and len(o) == 2 and o[0] == "sel#":
                    if o not in keys:
                        keys.append(o)
                        collect(INTERN_REV[o])
                elif isinstance(o, tuple):
                    for x in o:
                        collect(x)
            collect(origin_of(rec.kernel.get("cell_sizes")))
            problems, n_atoms = [], 0
            def is_mask(m):
                return isinstance(m, tuple) and m and (m[0] in ("&", "<=", "<", ">=", ">", "raw") or (m[0] == "op" and len(m) == 4 and m[1] in (
                    "__le__", "__lt__", "__ge__", "__gt__", "__and__")))
            masks = []
            for k in keys:
                m = INTERN_REV[k]
                if is_mask(m):
                    masks.append(m)
            # masks used directly as the index of a chained selection (not interned separately)
            for o in list(INTERN_REV.values()) + [origin_of(rec.kernel.get("cell_sizes"))]:
                for x in walk(o):
                    if isinstance(x, tuple) and len(x) == 3 and x[0] == "idx" and is_mask(x[2]) and x[2] not in masks:
                        masks.append(x[2])
            for m in masks:
                if False:
                    continue
                try:
                    for cmpop, kk in mask_reach(m):
                        n_atoms += 1
                        if kk < need - 1e-9:
                            problems.append("a mask keeps cells only within %.3g cell sizes of its limit (required >= %.3g = half the diagonal of a 3-D cell)" % (kk, need))
                except NonLinear as e:
                    raise Unsupported(str(e))
            if n_atoms == 0:
                raise Unsupported("no pre-selection mask found in the fold")
            run.ob(construct, not problems, fi.where(), "; ".join(problems[:2]) or "%d mask comparisons, each widened by at least half a cell diagonal" % n_atoms,
                   "cells that still overlap the window or plane (rotated views, cells straddling the border) are discarded: the pixels they cover are masked")
        except ERR as e:
            run.unresolved(construct, fi.where(), "cannot fold: %s" % e)
