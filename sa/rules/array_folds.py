"""Fold-based rules on core/array.py and core/base.py: the Array class itself is interpreted (ModelEval) over raw-buffer,
unit and dtype tokens."""
from __future__ import annotations

import ast

from ..models import ModelEval, PyObj, Marker, Raised, fold
from ..peval import Model, Unsupported
from ..source import AnalysisError
from ..specs import npmodel, operators as optab
from .core_models import BoolList, _dtname, slice_key, RawTok, NdTok, ARRAY_Q, VECTOR_Q

ERR = (Unsupported, AnalysisError)
DIMS = {"m": "L", "cm": "L", "km": "L", "s": "T", "dimensionless": "1", "percent": "1", "g": "M"}


class U(Model):
    """pint Unit token with a dimension"""
    def truth(self):
        return True          # a pint Unit object is always truthy (no __bool__/__len__)

    kinds = ("Unit",)

    def __init__(self, name, dim=None):
        self.name = name
        self.dim = dim if dim is not None else DIMS.get(name, "?")
        self.dimensionless = self.dim == "1"

    def __eq__(self, o):
        return isinstance(o, U) and o.name == self.name

    def __ne__(self, o):
        return not self.__eq__(o)

    def __hash__(self):
        return hash(self.name)

    def __rmul__(self, k):
        return Q(k, self)

    def __mul__(self, o):
        if isinstance(o, U):
            return U(("*", self.name, o.name), (self.dim, o.dim))
        return Q(o, self)

    def __repr__(self):
        return "U(%s)" % (self.name,)


class Mono(Model):
    """coef * product of unit-conversion ratios (ratio(a,b) = how many b in one a); ratio(b,a) = 1/ratio(a,b)"""
    def truth(self):
        return True          # a pint Unit object is always truthy (no __bool__/__len__)


    def __init__(self, coef=1.0, syms=None):
        self.coef = coef
        self.syms = {k: v for k, v in (syms or {}).items() if v}

    @staticmethod
    def ratio(a, b):
        if a == b:
            return Mono()
        return Mono(1.0, {(a, b): 1}) if repr(a) <= repr(b) else Mono(1.0, {(b, a): -1})

    @staticmethod
    def of(x):
        if isinstance(x, Mono):
            return x
        if isinstance(x, (int, float)) and not isinstance(x, bool):
            return Mono(float(x))
        return None

    def mul(self, o, sign=1):
        o = Mono.of(o)
        if o is None:
            return NotImplemented
        syms = dict(self.syms)
        for k, v in o.syms.items():
            syms[k] = syms.get(k, 0) + sign * v
        return Mono(self.coef * o.coef if sign > 0 else self.coef / o.coef, syms)

    __mul__ = __rmul__ = lambda self, o: self.mul(o)
    __truediv__ = lambda self, o: self.mul(o, -1)

    def __rtruediv__(self, o):
        return Mono.of(o).mul(self, -1)

    @property
    def origin(self):
        if self.coef == 1.0 and not self.syms:
            return 1.0
        if self.coef == 1.0 and len(self.syms) == 1:
            (a, b), e = next(iter(self.syms.items()))
            if e == 1:
                return ("ratio", a, b)
            if e == -1:
                return ("ratio", b, a)
        return ("mono", self.coef, tuple(sorted(self.syms.items(), key=repr)))

    def __eq__(self, o):
        o = Mono.of(o)
        return o is not None and o.origin == self.origin

    def __hash__(self):
        return hash(repr(self.origin))

    def __repr__(self):
        return "Mono%r" % (self.origin,)


def mmul(a, b, sign=1):
    """magnitude arithmetic: numbers/Mono exactly, raw buffers symbolically"""
    ma, mb = Mono.of(a), Mono.of(b)
    if ma is not None and mb is not None:
        r = ma.mul(mb, sign)
        return r.coef if not r.syms else r
    if isinstance(a, RawTok):
        ob = mb.origin if mb is not None else getattr(b, "origin", b)
        return RawTok(("*" if sign > 0 else "/", a.origin, ob), a.shape)
    raise Unsupported("magnitude arithmetic on %r, %r" % (a, b))


class Q(Model):
    """pint Quantity token"""
    kinds = ("Quantity",)

    def __init__(self, mag, units):
        self.magnitude, self.units = mag, units
        self.m, self.u = mag, units

    def to(self, unit):
        unit = unit if isinstance(unit, U) else U(unit)
        if unit.dim != self.units.dim:
            raise Raised("DimensionalityError", None, "cannot convert %s to %s" % (self.units.name, unit.name))
        if unit == self.units:
            return Q(self.magnitude, unit)
        return Q(mmul(self.magnitude, Mono.ratio(self.units.name, unit.name)), unit)

    def m_as(self, unit):
        return self.to(unit).magnitude

    def __truediv__(self, o):
        if isinstance(o, Q):
            return Q(mmul(self.magnitude, o.magnitude, -1), U(("/", self.units.name, o.units.name), "1" if self.units.dim == o.units.dim else "?"))
        return Q(mmul(self.magnitude, o, -1), self.units)

    def __repr__(self):
        return "Q(%r %r)" % (self.magnitude, self.units)


def units_factory(arg):
    if isinstance(arg, Q):
        raise Raised("TypeError", None, "Cannot create unit from a Quantity")
    if isinstance(arg, U):
        return arg
    if arg is None or arg == "":
        return U("dimensionless")
    return U(arg)


class DT(Model):
    """numpy dtype token"""

    def __init__(self, name):
        self.d = npmodel.DType(name)
        self.kind = self.d.kind
        self.name = name

    def _cmp(self, o):
        if isinstance(o, Marker) and o.kind == "type":
            return self.d == npmodel.PyType(o.data[0].__name__)
        if isinstance(o, Marker) and o.kind == "ext" and o.data[0].startswith("numpy."):
            return self.d == npmodel.NpType(o.data[0][6:])
        if isinstance(o, DT):
            return self.d == o.d
        if isinstance(o, str):
            return self.d == o
        return False

    def __eq__(self, o):
        return self._cmp(o)

    def __ne__(self, o):
        return not self._cmp(o)

    def __hash__(self):
        return hash(self.name)

    def __repr__(self):
        return "dtype(%s)" % self.name

    @property
    def type(self):
        """dtype.type: the scalar constructor of the dtype - calling it CASTS its argument"""
        return DTCast(self)


class DTCast(Model):
    """np.<dtype>(x) reached as dtype.type(x): floating-point targets keep a python number (precision is not modelled), integer and boolean
    targets TRUNCATE it, which is another number unless the argument was integral already"""

    def __init__(self, dt):
        self.dt = dt

    def __call__(self, x, *a, **k):
        if not (a or k) and "generic" in getattr(x, "kinds", ()) and "integer" in getattr(x, "kinds", ()) and self.dt.name.rstrip("0123456789") in ("float", "int"):
            return x            # an integer numpy scalar keeps its value in a floating-point or integer type (width not modelled)
        if a or k or isinstance(x, bool) or not isinstance(x, (int, float)):
            raise Unsupported("%s.type(%r)" % (self.dt, x))
        kind = self.dt.name.rstrip("0123456789")
        if kind == "float":
            return float(x)
        if kind in ("int", "uint"):
            if x != x or x in (float("inf"), float("-inf")):
                raise Raised("ValueError", None, "cannot convert float NaN/inf to integer")
            return int(x)
        if kind == "bool":
            return bool(x)
        raise Unsupported("%s.type(%r)" % (self.dt, x))


def isscalar(x):
    """np.isscalar: python numbers and strings and numpy scalars; never an ndarray (0-d ones included), a list or an object"""
    if isinstance(x, (bool, int, float, complex, str, bytes)):
        return True
    kinds = getattr(x, "kinds", ())
    return "generic" in kinds and "ndarray" not in kinds


def issubdtype(d, t):
    if not isinstance(d, DT):
        raise Unsupported("issubdtype(%r)" % (d,))
    if isinstance(t, Marker) and t.kind == "type":
        return npmodel.issubdtype(d.d, npmodel.PyType(t.data[0].__name__))
    if isinstance(t, Marker) and t.kind == "ext" and t.data[0].startswith("numpy."):
        return npmodel.issubdtype(d.d, npmodel.NpType(t.data[0][6:]))
    raise Unsupported("issubdtype(., %r)" % (t,))


def can_cast(frm, to, casting="safe"):
    """np.can_cast(from dtype, to dtype) under the 'safe' rule: no loss of information"""
    import re as _re
    if casting != "safe" or not (isinstance(frm, DT) and isinstance(to, DT)):
        raise Unsupported("can_cast(%r, %r, %r)" % (frm, to, casting))

    def split(d):
        m = _re.match(r"(bool|u?int|float|complex)(\d*)$", d.name)
        if not m:
            raise Unsupported("can_cast with dtype %s" % d.name)
        return m.group(1), int(m.group(2) or 8)
    (fk, fb), (tk, tb) = split(frm), split(to)
    if fk == "bool":
        return True
    if tk == "bool":
        return False
    if fk == tk:
        return fb <= tb
    if fk == "uint" and tk == "int":
        return fb < tb
    if fk in ("int", "uint") and tk == "float":
        return fb <= 16 and tb >= 32 or fb <= 32 and tb >= 64 or (fb <= 8 and tb >= 16)
    if fk in ("int", "uint", "float") and tk == "complex":
        return True if fk != "float" else fb * 2 <= tb
    return False


class Result(Model):
    """what a numpy function returns on raw buffers"""
    kinds = ("ndarray",)

    def __init__(self, fname, args, kwargs, dtype):
        self.origin = ("np", fname, args, kwargs)
        self.dtype = DT(dtype)
        self.shape = (3,)

    def __repr__(self):
        return "Result%r" % (self.origin,)


def desc(x):
    """describe an operand as passed to a numpy function"""
    if isinstance(x, (tuple, list)):
        return tuple(desc(y) for y in x)
    if isinstance(x, PyObj):
        if x._cls.qual == ARRAY_Q:
            return ("ARRAY-OBJECT", getattr(x._attrs.get("_array"), "origin", None), getattr(x._attrs.get("_unit"), "name", None))
        return ("OBJECT", x._cls.name)
    if isinstance(x, RawTok):
        return ("raw", x.origin)
    if isinstance(x, Q):
        return ("qty", x.magnitude if not isinstance(x.magnitude, RawTok) else ("raw", x.magnitude.origin), x.units.name)
    if isinstance(x, NdTok):
        return ("nd", x.origin)
    if isinstance(x, U):
        return ("unit", x.name)
    return x


class NpFunc(Model):
    """A numpy function/ufunc token: applied to raw buffers it returns a Result of the configured dtype; applied to unit
    quantities (the unit-derivation call) it returns a Quantity whose units record the derivation."""

    def __init__(self, name, dtype="float64", objects=False):
        self.__name__ = name
        self.dtype = dtype
        self.calls = []
        self.objects = objects

    def __call__(self, *args, **kwargs):
        self.calls.append((tuple(desc(a) for a in args), tuple(sorted((k, desc(v)) for k, v in kwargs.items()))))
        flat = []
        for a in args:
            flat.extend(a if isinstance(a, (tuple, list)) else [a])
        if not self.objects and any(isinstance(a, PyObj) for a in flat):
            raise Raised("RecursionError", None, "an osyris object reached numpy: the dispatch would recurse")
        if any(isinstance(a, Q) and isinstance(a.units, U) and a.magnitude == 1.0 for a in flat):
            return Q(("derived-mag",), U(("derived", self.__name__, tuple(desc(a) for a in args)), "?"))
        return Result(self.__name__, self.calls[-1][0], self.calls[-1][1], self.dtype)


MASK_DROPPED = "mask dropped by asarray"


def is_masked(origin):
    """the origin denotes a numpy.ma.MaskedArray: it is built from a ('ma', name) buffer and no step threw the mask away"""
    if isinstance(origin, tuple):
        if origin[:1] == (MASK_DROPPED,):
            return False
        if origin[:1] == ("ma",):
            return True
        return any(is_masked(x) for x in origin)
    return False


def _as_array(copying, keeps_subclass=True):
    def f(v, *a, **k):
        dt_ = k.get("dtype", a[0] if a else None)
        if isinstance(v, (list, tuple)) and v and all(isinstance(e, bool) for e in v) and dt_ is not None and _dtname(dt_) not in ("bool", "bool_"):
            # a mask written as a list, cast to numbers: row numbers 0 and 1, another selection
            return RawTok(("booleans cast to %s" % _dtname(dt_), tuple(v)), (len(v),))
        if not isinstance(v, (RawTok, Result, NdTok)):
            return RawTok(("num", v) if not isinstance(v, list) else ("list", tuple(v)), ())
        if not keeps_subclass and not k.get("subok", False) and is_masked(getattr(v, "origin", None)):
            # numpy.asarray / numpy.array (subok=False) return the bare data of a masked array: the mask is gone
            return RawTok((MASK_DROPPED, v.origin), getattr(v, "shape", (3,)), getattr(v, "dtype", None))
        may_copy = copying or k.get("order") not in (None, "K", "A") or k.get("dtype") is not None or (len(a) > 0 and a[0] is not None)
        if k.get("copy") is False:
            may_copy = k.get("order") not in (None, "K", "A") or k.get("dtype") is not None
        if may_copy and isinstance(v, RawTok):
            return RawTok(("copy", v.origin), v.shape, getattr(v, "dtype", None))
        return v
    return f


def hooks():
    return {
        "ext": {"numpy.require": lambda x, *a, **k: x, "numpy.ascontiguousarray": lambda x, *a, **k: x, "numpy.asarray": _as_array(False, keeps_subclass=False), "numpy.asanyarray": _as_array(False), "numpy.array": _as_array(True, keeps_subclass=False),
                "numpy.ascontiguousarray": _as_array(True), "numpy.copy": _as_array(True),
                "numpy.issubdtype": issubdtype, "numpy.can_cast": can_cast, "numpy.isscalar": isscalar,
                "numpy.reciprocal": lambda x: x, "numpy.amin": lambda x: x, "numpy.amax": lambda x: x},
        "globals": {"units/units.py::units": units_factory},
        "class": {},
    }


def new_array(tree, hk, origin, unit, shape=(3,)):
    ev = ModelEval(tree, tree.func(ARRAY_Q + ".__init__"), {}, hk)
    return ev.instantiate(tree.cls(ARRAY_Q), [], {"values": RawTok(origin, shape), "unit": unit}, None)


def arr_state(a):
    if not isinstance(a, PyObj):
        return a
    return (getattr(a._attrs.get("_array"), "origin", a._attrs.get("_array")), getattr(a._attrs.get("_unit"), "name", None))


# =============================================================================== _binary_op
class NpScalar(Model):
    """a numpy scalar (np.int64(2), np.float32(1.5), np.bool_): not an int/float/ndarray instance for isinstance, but numpy makes an array of it"""
    kinds = ("generic", "number", "integer", "signedinteger")

    def __init__(self, text):
        self.origin = text
        self.shape = ()
        self.dtype = DT("int64")


def check_binary_op_fold(run, tree, stricts=(True, False)):
    hk = hooks()
    BQ = "core/array.py::_binary_op"
    fi = tree.func(BQ)
    run.analysed(fi)
    cases = [
        ("Array, same unit", lambda: new_array(tree, hk, "B", "m"), ("B", "m"), ("B", "m")),
        ("Array, compatible different unit", lambda: new_array(tree, hk, "B", "cm"), (("*", "B", ("ratio", "cm", "m")), "m"), (("*", "B", ("ratio", "cm", "m")), "m")),
        ("Array, incompatible unit", lambda: new_array(tree, hk, "B", "s"), "raise", ("B", "s")),
        ("number", lambda: 2.0, "raise", (("num", 2.0), "dimensionless")),
        # zero is a number like any other: "zero is zero in every unit" is not this package's contract (x_m > 0 refuses like x_m > 1)
        ("the number zero", lambda: 0.0, "raise", (("num", 0.0), "dimensionless")),
        ("ndarray", lambda: RawTok("N"), "raise", ("N", "dimensionless")),
        ("Quantity in a compatible unit", lambda: Q(RawTok("Qm"), U("cm")), (("*", "Qm", ("ratio", "cm", "m")), "m"), (("*", "Qm", ("ratio", "cm", "m")), "m")),
        # a dimensionless left operand: numbers are accepted; other dimensionless units (percent, ...) still converted
        ("number, left operand dimensionless", lambda: 2.0, (("num", 2.0), "dimensionless"), (("num", 2.0), "dimensionless"), "dimensionless"),
        ("Array in another dimensionless unit, left operand dimensionless", lambda: new_array(tree, hk, "B", "percent"),
         (("*", "B", ("ratio", "percent", "dimensionless")), "dimensionless"), (("*", "B", ("ratio", "percent", "dimensionless")), "dimensionless"), "dimensionless"),
        # every other operand kind numpy can turn into an array is wrapped the same way (never handed to numpy's reflected path, which knows no units)
        ("numpy integer scalar", lambda: NpScalar("np.int64(2)"), "raise", "wrapped-dimensionless"),
        ("python int", lambda: 2, "raise", "wrapped-dimensionless"),
        ("python list", lambda: [1.0, 2.0, 3.0], "raise", "wrapped-dimensionless"),
        ("numpy integer scalar, left operand dimensionless", lambda: NpScalar("np.int64(2)"), "wrapped-dimensionless", "wrapped-dimensionless", "dimensionless"),
        ("python list, left operand dimensionless", lambda: [1.0, 2.0, 3.0], "wrapped-dimensionless", "wrapped-dimensionless", "dimensionless"),
    ]
    for strict in stricts:
        for label, mk, want_strict, want_loose, *rest in cases:
            lunit = rest[0] if rest else "m"
            construct = "%s[strict=%s, rhs=%s]" % (BQ, strict, label)
            try:
                lhs = new_array(tree, hk, "A", lunit)
                rhs = mk()
                before = (arr_state(lhs), arr_state(rhs))
                op = NpFunc("op", objects=True)
                want = want_strict if strict else want_loose
                try:
                    res, ev = fold(tree, BQ, [op, lhs, rhs], {"strict": strict, "out": lhs}, hooks=hk)
                    raised = None
                except Raised as e:
                    raised = e.name
                after = (arr_state(lhs), arr_state(rhs))
                problems = []
                if after != before:
                    problems.append("operands modified: %s -> %s" % (before, after))
                if want == "raise":
                    if raised != "DimensionalityError":
                        problems.append("incompatible dimensions: %s (required DimensionalityError)" % (
                            "raises " + raised if raised else "the numpy function is called with %s" % (op.calls[-1:] or "nothing")))
                else:
                    if raised:
                        problems.append("raises %s" % raised)
                    elif len(op.calls) != 1:
                        problems.append("numpy function called %d times" % len(op.calls))
                    else:
                        a, kw = op.calls[0]
                        wl = ("ARRAY-OBJECT", "A", lunit)
                        if want == "wrapped-dimensionless":
                            wr = a[1] if len(a) == 2 and isinstance(a[1], tuple) and a[1][:1] == ("ARRAY-OBJECT",) and a[1][-1] == "dimensionless" else ("ARRAY-OBJECT", "<the operand>", "dimensionless")
                        else:
                            wr = ("ARRAY-OBJECT",) + tuple(want)
                        if len(a) != 2 or a[0] != wl or a[1] != wr:
                            problems.append("numpy function receives %s, required (%s, %s)" % (a, wl, wr))
                        if dict(kw).get("out") != ("ARRAY-OBJECT", "A", lunit):
                            problems.append("keyword arguments not forwarded: %s" % (kw,))
                run.ob(construct, not problems, fi.where(), "; ".join(problems) or (
                    "raises DimensionalityError, operands unchanged" if want == "raise" else "right operand reaches numpy as %s" % (want,)),
                       "a %s b with b a %s: %s" % ("+/-/comparison" if strict else "*//", label,
                                                   "raw numbers in different units are combined" if want != "raise" else
                                                   "an answer is returned for incompatible dimensions, or an operand is modified before the error"))
            except ERR as e:
                run.unresolved(construct, fi.where(), "cannot fold: %s" % e)
    # a Vector on the right: NotImplemented (Python then tries the reflected operator of the Vector)
    try:
        pass
        lhs = new_array(tree, hk, "A", "m")
        v = PyObj(tree.cls(VECTOR_Q))
        res, ev = fold(tree, BQ, [NpFunc("op", objects=True), lhs, v], {}, hooks=hk)
        run.ob(BQ + "[rhs=Vector]", isinstance(res, Marker) and res.kind == "builtin" and res.data[0] == "NotImplemented", fi.where(),
               "Array op Vector returns %r" % (res,), "a * v does not fall back to the Vector's reflected operator", nontrivial=False)
    except (Raised,) + ERR as e:
        run.unresolved(BQ + "[rhs=Vector]", fi.where(), "cannot fold: %s" % e)


# =============================================================================== _wrap_numpy
K1 = ARRAY_Q + "._wrap_numpy::inherit-self-unit-without-reconciling-operands"


def wrap_call(tree, hk, fname, dtype, rhs_unit="cm", with_out=False, rhs_kind="Array"):
    a = new_array(tree, hk, "A", "m")
    if rhs_kind == "Array":
        b = new_array(tree, hk, "B", rhs_unit)
    elif rhs_kind == "0-d Array":
        b = new_array(tree, hk, "B", rhs_unit, shape=())
    elif rhs_kind == "number":
        b = 2.0
    elif rhs_kind == "ndarray":
        b = RawTok("N")
    else:
        b = Q(RawTok("Qm"), U(rhs_unit))
    f = NpFunc(fname, dtype)
    kwargs = {}
    out = None
    if with_out:
        out = new_array(tree, hk, "O", "s")
        kwargs["out"] = (out,)
    ev = ModelEval(tree, tree.func(ARRAY_Q + "._wrap_numpy"), {}, hk)
    m = tree.method(tree.cls(ARRAY_Q), "_wrap_numpy")
    res = ev.invoke(m, [a, f, a, b], kwargs, None)
    return a, b, f, out, res


def check_wrap_numpy_fold(run, tree, want=("gate-numeric", "gate-bool", "derive", "inherit", "out", "out-alias", "operands", "k1"), derive_names=None):
    hk = hooks()
    fi = tree.func(ARRAY_Q + "._wrap_numpy")
    run.analysed(fi)
    # ---- dtype gate
    if "gate-numeric" in want or "gate-bool" in want:
        for name, kind in npmodel.DTYPES.items():
            if kind in npmodel.NUMERIC_KINDS and "gate-numeric" not in want:
                continue
            if kind == "b" and "gate-bool" not in want:
                continue
            if kind not in npmodel.NUMERIC_KINDS and kind != "b":
                continue
            construct = "%s._wrap_numpy::dtype-gate[%s]" % (ARRAY_Q, name)
            try:
                a, b, f, out, res = wrap_call(tree, hk, "add", name, rhs_unit="m")
                u = arr_state(res)[1] if isinstance(res, PyObj) else None
                if kind == "b":
                    run.ob(construct, u == "dimensionless", fi.where(), "boolean result labelled %r" % u,
                           "a < b or np.isfinite(a) carries the operand unit instead of being dimensionless")
                else:
                    run.ob(construct, u == "m", fi.where(), "result of dtype %s labelled %r (required the operand unit)" % (name, u),
                           "a + b, -a, np.sum(a) for Arrays of dtype %s become dimensionless" % name)
            except Raised as e:
                run.violated(construct, fi.where(), "raises %s" % e, "numpy functions on %s Arrays" % name)
            except ERR as e:
                run.unresolved(construct, fi.where(), "cannot fold: %s" % e)
    # ---- unit derivation for the transforming catalogue, inheritance otherwise
    if "derive" in want:
        for fname in (derive_names or optab.UNIT_TRANSFORMING):
            construct = "%s::APPLY_OP_TO_UNIT[%s]" % (ARRAY_Q, fname)
            try:
                a, b, f, out, res = wrap_call(tree, hk, fname, "float64")
                u = arr_state(res)[1]
                ok = isinstance(u, tuple) and u[0] == "derived" and u[1] == fname and u[2] == (("qty", 1.0, "m"), ("qty", 1.0, "cm"))
                run.ob(construct, ok, fi.where(), "np.%s(a [m], b [cm]) labelled %r (required the unit derived by applying %s to (1 m, 1 cm))" % (fname, u, fname),
                       "np.%s(a) is labelled with the unit of a" % fname)
            except Raised as e:
                run.violated(construct, fi.where(), "raises %s" % e, "np.%s on Arrays" % fname)
            except ERR as e:
                run.unresolved(construct, fi.where(), "cannot fold: %s" % e)
    if "inherit" in want:
        for fname in ("add", "negative", "sum", "amax", "concatenate", "less"):
            construct = "%s::APPLY_OP_TO_UNIT[not %s]" % (ARRAY_Q, fname)
            try:
                a, b, f, out, res = wrap_call(tree, hk, fname, "float64" if fname != "less" else "bool", rhs_unit="m")
                u = arr_state(res)[1]
                wantu = "m" if fname != "less" else "dimensionless"
                run.ob(construct, u == wantu, fi.where(), "np.%s(a [m], b [m]) labelled %r (required %s)" % (fname, u, wantu),
                       "np.%s applied to unit quantities is not a unit rule (a + b in m would be labelled by pint arithmetic on units)" % fname,
                       nontrivial=False)
            except Raised as e:
                run.violated(construct, fi.where(), "raises %s" % e, "np.%s on Arrays" % fname)
            except ERR as e:
                run.unresolved(construct, fi.where(), "cannot fold: %s" % e)
    # ---- what reaches numpy: buffers for Arrays, magnitudes for Quantities, everything else unchanged; units likewise
    if "operands" in want:
        for kind, want_raw, want_unit in (("Array", ("raw", "B"), ("qty", 1.0, "cm")), ("0-d Array", ("raw", "B"), ("qty", 1.0, "cm")), ("number", 2.0, 2.0), ("ndarray", ("raw", "N"), ("raw", "N")),
                                           ("Quantity", ("raw", "Qm"), ("qty", 1.0, "cm"))):
            construct = "%s._wrap_numpy::operand[%s]" % (ARRAY_Q, kind)
            try:
                a, b, f, out, res = wrap_call(tree, hk, "multiply", "float64", rhs_kind=kind)
                raw_call = f.calls[0][0] if f.calls else None
                unit_call = f.calls[1][0] if len(f.calls) > 1 else None
                ok1 = raw_call == (("raw", "A"), want_raw)
                ok2 = unit_call == (("qty", 1.0, "m"), want_unit)
                run.ob(construct, ok1 and ok2, fi.where(), "numpy receives %s; the unit derivation receives %s" % (raw_call, unit_call),
                       "np.<f>(a, x) with x a %s: x reaches numpy / the unit derivation in the wrong form (e.g. the exponent of "
                       "np.power replaced by 1.0, a Quantity's unit ignored, a 0-d Array handed over as a python scalar: the operation then runs in "
                       "the other operand's dtype)" % kind)
            except Raised as e:
                run.violated(construct, fi.where(), "raises %s" % e, "np.<f>(a, %s)" % kind)
            except ERR as e:
                run.unresolved(construct, fi.where(), "cannot fold: %s" % e)
        # sequence first argument (concatenate)
        construct = ARRAY_Q + "._wrap_numpy::sequence-argument"
        try:
            a = new_array(tree, hk, "A", "m")
            b = new_array(tree, hk, "B", "m")
            f = NpFunc("concatenate")
            ev = ModelEval(tree, fi, {}, hk)
            for seq in ([a, b], (a, b)):
                f.calls.clear()
                res = ev.invoke(fi, [a, f, seq, 0], {}, None)
                okc = f.calls and f.calls[0][0] == ((("raw", "A"), ("raw", "B")), 0) and dict(f.calls[0][1]).get("axis") == (0,) or \
                    (f.calls and f.calls[0][0] == ((("raw", "A"), ("raw", "B")), 0))
                run.ob(construct + "[%s]" % type(seq).__name__, bool(okc) and arr_state(res)[1] == "m", fi.where(),
                       "numpy receives %s; result unit %r" % (f.calls[:1], arr_state(res)[1]), "np.concatenate([a, b]) passes Arrays (not buffers) to numpy")
        except Raised as e:
            run.violated(construct, fi.where(), "raises %s" % e, "np.concatenate([a, b])")
        except ERR as e:
            run.unresolved(construct, fi.where(), "cannot fold: %s" % e)
    # ---- out=
    if "out" in want or "out-alias" in want:
        for fname, wantu in (("multiply", "derived"), ("add", "m")):
            construct = "%s._wrap_numpy::out[%s]" % (ARRAY_Q, fname)
            try:
                a, b, f, out, res = wrap_call(tree, hk, fname, "float64", with_out=True, rhs_unit="m")
                u = arr_state(out)[1]
                ok_unit = (isinstance(u, tuple) and u[0] == "derived") if wantu == "derived" else u == wantu
                if "out" in want:
                    run.ob(construct + "::unit-stored-on-out", ok_unit, fi.where(), "after np.%s(a, b, out=o): o.unit = %r" % (fname, u),
                           "x %s= y (or an explicit out= buffer) keeps its old unit" % {"multiply": "*", "add": "+"}[fname])
                    if wantu == "derived":
                        kw2 = dict(f.calls[1][1]) if len(f.calls) > 1 else {}
                        run.ob(construct + "::unit-derivation-without-out", len(f.calls) > 1 and "out" not in kw2, fi.where(),
                               "the unit derivation call receives keywords %s" % (sorted(kw2) or "none"), "x *= y: the unit call would write into x")
                    run.ob(construct + "::out-returned", res is out, fi.where(), "returns %s" % ("the out object" if res is out else repr(arr_state(res))),
                           "x += y rebinds x to a new object: other references do not see the update")
                if "out-alias" in want:
                    kw = dict(f.calls[0][1]) if f.calls else {}
                    ok_fwd = kw.get("out") == (("raw", "O"),)
                    same_buf = arr_state(out)[0] == "O"
                    # ... under numpy's own casting rule: a keyword the caller did not give (casting="unsafe") lets a float result be truncated
                    # into an integer buffer without the error that x_int += 0.5 must raise
                    extra = sorted(k_ for k_ in kw if k_ != "out")
                    run.ob(construct + "::no-keyword-added", not extra, fi.where(), "numpy receives the keywords %s" % (sorted(kw) or "none"),
                           "x (integer data) += y (float): the result is silently truncated into x (casting='unsafe' handed to numpy) while the unit is set as if it had been stored in full")
                    run.ob(construct + "::numpy-writes-into-the-buffer", ok_fwd and same_buf, fi.where(),
                           "numpy receives out=%r; the out Array still wraps buffer %r" % (kw.get("out"), arr_state(out)[0]),
                           "x += y allocates a new buffer: slices of x taken before the update and x no longer share data")
            except Raised as e:
                run.violated(construct, fi.where(), "raises %s" % e, "in-place operators")
            except ERR as e:
                run.unresolved(construct, fi.where(), "cannot fold: %s" % e)
    # ---- K1: a result inherits self.unit although another operand carries a different unit that was not reconciled
    if "k1" in want:
        try:
            a, b, f, out, res = wrap_call(tree, hk, "add", "float64", rhs_unit="cm")
            u = arr_state(res)[1]
            raw_call = f.calls[0][0] if f.calls else None
            unreconciled = u == "m" and raw_call == (("raw", "A"), ("raw", "B"))
            run.ob(K1, not unreconciled, fi.where(),
                   "np.add(a [m], b [cm]): numpy receives %s and the result is labelled %r — the other operand's unit is %s" % (
                       raw_call, u, "never converted to or compared with it" if unreconciled else "reconciled"),
                   "np.add(Array([1],'m'), Array([1],'cm')) = 2 m; np.concatenate of Arrays in m and cm; np.maximum(m, cm)")
        except Raised as e:
            run.holds(K1, fi.where(), "np.add(a [m], b [cm]) raises %s (operands are checked)" % e.name)
        except ERR as e:
            run.unresolved(K1, fi.where(), "cannot fold: %s" % e)


def check_protocols_fold(run, tree):
    hk = hooks()
    rec = []
    hk["pkgfunc"] = {ARRAY_Q + "._wrap_numpy": lambda self, func, *a, **k: rec.append((func, a, k)) or "WRAPPED"}
    a = new_array(tree, hk, "A", "m")
    f = NpFunc("sqrt")
    base = tree.cls("core/base.py::Base")
    for label, mname, args, want_call in (
            ("__array_ufunc__ __call__", "__array_ufunc__", [f, "__call__", a, 2.0], ((a, 2.0), {"out": "OUT"})),
            ("__array_function__", "__array_function__", [f, (), (a, 2.0), {"out": "OUT"}], ((a, 2.0), {"out": "OUT"}))):
        construct = "core/base.py::Base.%s" % mname
        m = tree.method(base, mname)
        if m is None:
            run.violated(construct, "src/osyris/core/base.py", "%s is not defined" % mname, "numpy functions on Arrays fall back to ndarray conversion")
            continue
        run.analysed(m)
        try:
            rec.clear()
            ev = ModelEval(tree, m, {}, hk)
            kwargs = {"out": "OUT"} if mname == "__array_ufunc__" else {}
            res = ev.invoke(m, [a] + args, kwargs, None)
            ok = res == "WRAPPED" and len(rec) == 1 and rec[0][0] is f and tuple(rec[0][1]) == want_call[0] and rec[0][2] == want_call[1]
            run.ob(construct, ok, m.where(), "forwards %s" % (rec[:1],), "a numpy function or keyword form (out=, axis=) bypasses the unit wrapper")
        except Raised as e:
            run.violated(construct, m.where(), "raises %s" % e, "np.<f>(a)")
        except ERR as e:
            run.unresolved(construct, m.where(), "cannot fold: %s" % e)


# =============================================================================== Array.__init__ / __getitem__
def check_constructor_fold(run, tree):
    hk = hooks()
    ci = tree.cls(ARRAY_Q)
    fi = tree.method(ci, "__init__")
    run.analysed(fi)
    ev = ModelEval(tree, fi, {}, hk)

    def build(*args, **kwargs):
        return ev.instantiate(ci, list(args), kwargs, None)

    def case(label, mk, want, family, nontrivial=True):
        construct = "%s.__init__[%s]" % (ARRAY_Q, label)
        try:
            try:
                a = mk()
                got = (arr_state(a), a._attrs.get("name", a._attrs.get("_name")))
            except Raised as e:
                got = "raises " + e.name
            run.ob(construct, got == want, fi.where(), "%s -> %s%s" % (label, got, "" if got == want else " (required %s)" % (want,)), family, nontrivial=nontrivial)
        except ERR as e:
            run.unresolved(construct, fi.where(), "cannot fold: %s" % e)

    case("ndarray with a unit", lambda: build(values=RawTok("N"), unit="m", name="n"), (("N", "m"), "n"),
         "Array(ndarray, 'm') copies the buffer (the Array is no longer a view of the data it was given) or mislabels it")
    case("ndarray without a unit", lambda: build(RawTok("N")), (("N", "dimensionless"), ""), "a + ndarray: the ndarray is given a unit")
    case("number", lambda: build(2.0, unit="s"), ((("num", 2.0), "s"), ""), "Array(2.0, 's')")
    case("Quantity", lambda: build(Q(RawTok("Qm"), U("cm"))), (("Qm", "cm"), ""), "a + (3*cm): the number 3 is taken as metres")
    case("Quantity with an explicit unit", lambda: build(Q(RawTok("Qm"), U("cm")), unit="s"), "raises ValueError", "Array(3*m, unit='s') silently relabels", False)
    case("Array", lambda: build(new_array(tree, hk, "A", "m")), "raises NotImplementedError",
         "Array(Array(...)) nests the wrapper: every later operation dispatches wrongly; a * v no longer reaches Vector.__rmul__")
    case("Vector", lambda: build(PyObj(tree.cls(VECTOR_Q))), "raises NotImplementedError", "a * v does not fall back to the Vector's reflected operator")


def check_index_gate_fold(run, tree):
    hk = hooks()
    ci = tree.cls(ARRAY_Q)
    fi = tree.method(ci, "__getitem__")
    run.analysed(fi)
    ev = ModelEval(tree, fi, {}, hk)

    def idx_array(dtype):
        return ev.instantiate(ci, [], {"values": RawTok("I", (4,), DT(dtype))}, None)

    cases = [("slice", lambda: slice(1, 3, None), ("idx", "A", slice_key((4,), slice(1, 3, None))), True),
             ("reversing slice", lambda: slice(None, None, -1), ("idx", "A", slice_key((4,), slice(None, None, -1))), True),
             ("integer", lambda: 2, ("idx", "A", 2), True),
             ("ndarray", lambda: RawTok("M", (4,)), ("idx", "A", "M"), True),
             ("a mask written as a python list of booleans", lambda: BoolList([True, False, True, True]), ("idx", "A", BoolList([True, False, True, True])), True),
             ("Vector", lambda: PyObj(tree.cls(VECTOR_Q)), "raises ValueError", False)]
    for name, kind in npmodel.DTYPES.items():
        ok = kind in "iub"
        if name in ("int32", "int64", "bool"):
            cases.append(("Array of dtype %s" % name, (lambda n=name: idx_array(n)), ("idx", "A", "I"), True))
        elif not ok:
            cases.append(("Array of dtype %s" % name, (lambda n=name: idx_array(n)), "raises TypeError", name == "float64"))
    for label, mk, want, nontrivial in cases:
        construct = "%s.__getitem__[%s]" % (ARRAY_Q, label)
        try:
            def attempt():
                a = ev.instantiate(ci, [], {"values": RawTok("A", (4,)), "unit": "m", "name": "nm"}, None)
                try:
                    index = mk()
                    r = ev.invoke(fi, [a, index], {}, None)
                    got_ = arr_state(r)[0] if isinstance(r, PyObj) else r
                    if isinstance(r, PyObj) and (arr_state(r)[1] != "m" or r._attrs.get("name", r._attrs.get("_name")) != "nm"):
                        got_ = ("unit/name lost", arr_state(r))
                    elif isinstance(r, PyObj):
                        # the SAME index object once more: a new Array on a new index result every time (numpy copies for masks and index
                        # arrays; a remembered result is stale as soon as the data or the mask is updated in place, and shared between callers)
                        r2 = ev.invoke(fi, [a, index], {}, None)
                        if r2 is r or (isinstance(r2, PyObj) and r2._attrs.get("_array") is r._attrs.get("_array")):
                            got_ = ("the second a[index] with the same index object returns the %s of the first" % ("Array object" if r2 is r else "buffer"), got_)
                except Raised as e:
                    got_ = "raises " + e.name
                return got_
            # a test on the CONTENTS of the index (first >= 0, contiguous?) is not decided by the token: every answer is explored,
            # and the selection must be the one numpy makes with the index as given on each of them
            from ..models import explore
            outcomes = explore(attempt)
            bad_branch = [(assume, g) for assume, g in outcomes if g != want]
            got = bad_branch[0][1] if bad_branch else want
            if bad_branch and bad_branch[0][0]:
                label = "%s; assuming %s" % (label, ", ".join("%s%s" % ("" if v else "NOT ", k[:70]) for k, v in sorted(bad_branch[0][0].items())))
            run.ob(construct, got == want, fi.where(), "a[%s] -> %s%s" % (label, got, "" if got == want else " (required %s)" % (want,)),
                   "a float Array used as index (e.g. a mask multiplied by 1.0) is accepted / a boolean mask is rejected / the selection is a copy, not a view / a remembered selection is handed out again (stale after an in-place update, shared between callers)",
                   nontrivial=nontrivial)
        except ERR as e:
            run.unresolved(construct, fi.where(), "cannot fold: %s" % e)


# =============================================================================== Array.to
def check_to_fold(run, tree):
    hk = hooks()
    ci = tree.cls(ARRAY_Q)
    fi = tree.method(ci, "to")
    construct = ARRAY_Q + ".to"
    if fi is None:
        run.violated(construct, ci.module.rel, "Array.to is not defined", "any unit conversion")
        return
    run.analysed(fi)
    ev = ModelEval(tree, fi, {}, hk)
    for dtype in ("float64", "int64"):
        for label, target, want in (("equal unit", "m", "self"), ("compatible unit", "cm", (("*", "A", ("ratio", "m", "cm")), "cm")),
                                    ("unit object", U("km"), (("*", "A", ("ratio", "m", "km")), "km")),
                                    ("incompatible unit", "s", "raises DimensionalityError")):
            c = "%s[%s, %s data]" % (construct, label, dtype)
            try:
                a = ev.instantiate(ci, [], {"values": RawTok("A", (4,), DT(dtype)), "unit": "m", "name": "nm"}, None)
                before = arr_state(a)
                try:
                    r = ev.invoke(fi, [a, target], {}, None)
                    got = "self" if r is a else arr_state(r) if isinstance(r, PyObj) else r
                except Raised as e:
                    got = "raises " + e.name
                problems = []
                if arr_state(a) != before:
                    problems.append("the receiver is modified: %s -> %s" % (before, arr_state(a)))
                if got != want and not (want == "self" and got in (("A", "m"), (("copy", "A"), "m"))):
                    problems.append("returns %s (required %s)" % (got, want))
                run.ob(c, not problems, fi.where(), "; ".join(problems) or "a.to(%s) -> %s" % (label, got),
                       "a.to(u): values scaled by the inverse ratio, cast back to the integer dtype (150 cm -> 1 m), the receiver converted in place, "
                       "or incompatible dimensions accepted", nontrivial=label != "unit object")
            except ERR as e:
                run.unresolved(c, fi.where(), "cannot fold: %s" % e)


def check_masked_buffers(run, tree):
    """An Array may hold a numpy masked array (maps and histograms produce them): construction, copy, to(), indexing and the numpy dispatch
    keep the mask - numpy.asarray / numpy.array on the way would hand the hidden entries back as ordinary values."""
    hk = hooks()
    ci = tree.cls(ARRAY_Q)
    MA = ("ma", "A")

    def masked_array():
        ev = ModelEval(tree, tree.func(ARRAY_Q + ".__init__"), {}, hk)
        return ev, ev.instantiate(ci, [], {"values": RawTok(MA, (4,)), "unit": "m", "name": "nm"}, None)

    def buffer_of(x):
        return getattr(x._attrs.get("_array"), "origin", x._attrs.get("_array")) if isinstance(x, PyObj) else getattr(x, "origin", x)
    steps = [("constructed from a masked array", lambda ev, a: a),
             ("copy()", lambda ev, a: ev.invoke(tree.method(ci, "copy"), [a], {}, None)),
             ("to('cm')", lambda ev, a: ev.invoke(tree.method(ci, "to"), [a, "cm"], {}, None)),
             ("to('m') (same unit)", lambda ev, a: ev.invoke(tree.method(ci, "to"), [a, "m"], {}, None)),
             ("a[1:3]", lambda ev, a: ev.invoke(tree.method(ci, "__getitem__"), [a, slice(1, 3)], {}, None)),
             ("numpy function through _wrap_numpy (np.multiply(a, 2.0))", lambda ev, a: ev.invoke(tree.method(ci, "_wrap_numpy"), [a, NpFunc("multiply"), a, 2.0], {}, None)),
             (".values", lambda ev, a: ev.obj_getattr(a, "values"))]
    for label, step in steps:
        construct = "%s[masked-array values: %s]" % (ARRAY_Q, label)
        try:
            ev, a = masked_array()
            try:
                r = step(ev, a)
            except Raised as e:
                run.violated(construct, ci.module.rel, "raises %s" % e.name, "Arrays holding masked arrays (every map / histogram layer)")
                continue
            o = buffer_of(r)
            run.ob(construct, is_masked(o), "src/osyris/core/array.py", "buffer of the result: %r%s" % (o, "" if is_masked(o) else " - the mask is gone"),
                   "an Array holding a masked array (a map layer): after %s the entries hidden under the mask come back as ordinary values (max(), sums and plots include them)" % label)
        except ERR as e:
            run.unresolved(construct, "src/osyris/core/array.py", "cannot fold: %s" % e)


# =============================================================================== operator table (S4) as a fold
REL = frozenset(["lt", "eq", "gt", "unordered"])          # element-wise relation of the two operands (unordered: a NaN)
BOOL2 = frozenset(["TT", "TF", "FT", "FF"])
TRUTH = {"less": (REL, {"lt"}), "less_equal": (REL, {"lt", "eq"}), "greater": (REL, {"gt"}), "greater_equal": (REL, {"gt", "eq"}),
         "equal": (REL, {"eq"}), "not_equal": (REL, {"lt", "gt", "unordered"}),
         "logical_and": (BOOL2, {"TT"}), "logical_or": (BOOL2, {"TT", "TF", "FT"}), "logical_xor": (BOOL2, {"TF", "FT"})}
MIRROR = {"lt": "gt", "gt": "lt", "eq": "eq", "unordered": "unordered", "TT": "TT", "FF": "FF", "TF": "FT", "FT": "TF"}
ARITH_NAMES = {"add": "+", "subtract": "-", "multiply": "*", "divide": "/", "true_divide": "/"}


class Bin(Model):
    """What the (stubbed) _binary_op returns: for predicates a truth set over the element-wise relation of the operands,
    for arithmetic the operation itself."""

    def __init__(self, kind, data, strict, out=None, calls=1):
        self.kind, self.data, self.strict, self.out, self.calls = kind, data, strict, out, calls

    def _combine(self, o, f):
        if not isinstance(o, Bin) or self.kind != "truth" or o.kind != "truth" or self.data[0] != o.data[0]:
            raise Unsupported("combination of operator results")
        return Bin("truth", (self.data[0], frozenset(f(self.data[1], o.data[1]))), self.strict and o.strict, None, self.calls + o.calls)

    def __invert__(self):
        if self.kind != "truth":
            raise Unsupported("~ on an arithmetic result")
        return Bin("truth", (self.data[0], self.data[0] - self.data[1]), self.strict, None, self.calls)

    def __or__(self, o):
        return self._combine(o, lambda a, b: a | b)

    def __and__(self, o):
        return self._combine(o, lambda a, b: a & b)

    def __xor__(self, o):
        return self._combine(o, lambda a, b: a ^ b)

    def __repr__(self):
        return "Bin(%s %s strict=%s)" % (self.kind, self.data, self.strict)


def check_operator_table_fold(run, tree, table):
    hk = hooks()
    ci = tree.cls(ARRAY_Q)
    state = {}

    def stub(op, lhs, rhs, strict=True, **kwargs):
        name = op.data[0][6:] if isinstance(op, Marker) and op.kind == "ext" and op.data[0].startswith("numpy.") else getattr(op, "__name__", None)
        if name is None:
            raise Unsupported("_binary_op called with %r" % (op,))
        order = "SO" if (lhs is state["self"] and rhs is state["other"]) else "OS" if (lhs is state["other"] and rhs is state["self"]) else None
        if order is None:
            if state.get("plain_other"):
                return Bin("rewritten-operand", (name, repr(rhs if lhs is state["self"] else lhs)), strict, "self" if kwargs.get("out") is state["self"] else None)
            raise Unsupported("_binary_op called with operands other than (self, other)")
        extra = sorted(k for k in kwargs if k != "out")
        if extra:
            raise Unsupported("_binary_op called with extra keywords %s" % extra)
        out = kwargs.get("out")
        out = "self" if out is state["self"] else None if out is None else "other-object"
        if name in TRUTH:
            dom, ts = TRUTH[name]
            ts = frozenset(ts if order == "SO" else {MIRROR[x] for x in ts})
            return Bin("truth", (dom, ts), strict is True, out)
        if name in ARITH_NAMES:
            return Bin("arith", (ARITH_NAMES[name], order), strict, out)
        return Bin("other", (name, order), strict, out)
    hk["pkgfunc"] = {"core/array.py::_binary_op": stub}
    for dunder, (names, strict, inplace) in table.items():
        fi = tree.method(ci, dunder)
        construct = "%s.%s" % (ARRAY_Q, dunder)
        if fi is None or fi.cls.qual != ci.qual:
            run.violated(construct, ci.module.rel, "operator %s is not defined on Array" % dunder,
                         "any expression using this operator falls back to object/numpy semantics without unit handling")
            continue
        run.analysed(fi)
        try:
            # the operator must hand (self, other) to the one helper whatever `other` is: a python number, a numpy scalar (no private
            # arithmetic on the operand, e.g. multiplying by 1.0/other instead of dividing: another rounding, overflow for tiny divisors)
            plain_problems = []
            for label, other in (("a python float", 2.5), ("a python int", 3), ("a numpy scalar", NpScalar("np.float32(2.5)"))):
                state["self"], state["other"], state["plain_other"] = new_array(tree, hk, "S", "m"), other, True
                try:
                    r_ = ModelEval(tree, fi, {}, hk).invoke(fi, [state["self"], other], {}, None)
                except Raised as e:
                    plain_problems.append("with %s: raises %s" % (label, e))
                    continue
                if isinstance(r_, Bin) and r_.kind == "rewritten-operand":
                    plain_problems.append("with %s the helper receives %s instead of the operand (np.%s)" % (label, r_.data[1], r_.data[0]))
                elif isinstance(r_, Bin) and names[0] not in TRUTH and (r_.kind != "arith" or r_.data != (ARITH_NAMES[names[0]], "SO")):
                    plain_problems.append("with %s: computes %s" % (label, r_.data))
            state["plain_other"] = False
            state["self"] = new_array(tree, hk, "S", "m")
            state["other"] = new_array(tree, hk, "O", "cm")
            ev = ModelEval(tree, fi, {}, hk)
            try:
                res = ev.invoke(fi, [state["self"], state["other"]], {}, None)
            except Raised as e:
                run.violated(construct, fi.where(), "raises %s" % e, "a %s b" % dunder)
                continue
            problems = list(plain_problems)
            if not isinstance(res, Bin):
                run.unresolved(construct, fi.where(), "the operator does not resolve to _binary_op: returns %r" % (res,))
                continue
            if names[0] in TRUTH:
                dom, ts = TRUTH[names[0]]
                if res.kind != "truth" or res.data[0] != dom:
                    problems.append("computes %r, the table requires np.%s" % (res.data, names[0]))
                elif res.data[1] != frozenset(ts):
                    diff = sorted(res.data[1] ^ frozenset(ts))
                    problems.append("true for operand relations %s, np.%s is true for %s: differs where the operands are %s" % (
                        sorted(res.data[1]), names[0], sorted(ts), "/".join(diff)))
            else:
                if res.kind != "arith" or res.data != (ARITH_NAMES[names[0]], "SO"):
                    problems.append("computes %s, the table requires self %s other" % (res.data, ARITH_NAMES[names[0]]))
            if bool(res.strict) is not strict:
                problems.append("strict=%r, the table requires %r (%s)" % (res.strict, strict, "incompatible units must raise" if strict else
                                                                           "incompatible units must multiply/divide into a derived unit"))
            if inplace and res.out != "self":
                problems.append("in-place operator does not pass out=self")
            if not inplace and res.out is not None:
                problems.append("out-of-place operator passes out=")
            run.ob(construct, not problems, fi.where(), "; ".join(problems) or "np.%s strict=%s%s" % (names[0], strict, " out=self" if inplace else ""),
                   "a %s b with %s" % (dunder, "operands in compatible but different units, or NaN elements" if strict else "any operands"))
        except ERR as e:
            run.unresolved(construct, fi.where(), "cannot fold: %s" % e)
