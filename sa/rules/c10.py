"""C10 — numpy functions on Arrays return dimensionally correct units or refuse."""
from __future__ import annotations

import ast

from ..flow import enumerate_paths
from ..source import norm, const_value, walk_no_nested
from ..specs import operators as optab
from . import coretypes as ct
from .common import calls_in, is_name, params, single_return, root_name, returns_of
from .units_rules import check_wrap_helpers

EXPLANATION = (
    "Static rules on core/base.py and core/array.py: (R1) both numpy protocols forward the function and ALL arguments to "
    "the one wrapper and refuse only non-call ufunc methods; (R2) the catalogue of unit-transforming functions named by the "
    "property (multiply, divide, sqrt, square, cbrt, power, reciprocal) is contained in the set whose unit is recomputed, "
    "and unit-preserving functions / predicates are not in it; (R3) a numeric result may inherit self.unit only after the "
    "other unit-carrying operands were converted to or checked against it (today: not done -> known finding K1); (R4) the "
    "dtype predicate gives numeric results a unit and boolean results none, over a model of all numpy dtypes; (R5) with "
    "out= the unit is written to the out object, which is returned, and numpy writes into its buffer; (R6) the helper "
    "methods extract arrays/units from every argument and pass other operands through; (R7) sequence arguments "
    "(concatenate) are unpacked element-wise.")
NOT_DECIDED = ("numpy's values; functions whose correct unit is neither inherited nor in the property's catalogue "
               "(var, prod, argsort, ...)")
TRUSTED = ("CPython ast", "numpy/pint behave as documented", "S4 catalogue (from the property text)", "numpy dtype model")


def r1_protocols(run, tree):
    run.rule("C10.R1", "numpy protocols forward everything to _wrap_numpy", "path rule", "", floor=2)
    base = tree.cls("core/base.py::Base")
    # __array_ufunc__
    fi = tree.method(base, "__array_ufunc__")
    construct = "core/base.py::Base.__array_ufunc__"
    if fi is None:
        run.violated(construct, base.module.rel, "__array_ufunc__ is not defined", "np.sqrt(a) falls back to ndarray conversion")
    else:
        run.analysed(fi)
        pn = params(fi)
        a = fi.node.args
        ok, why = True, []
        if len(pn) < 3 or a.vararg is None or a.kwarg is None:
            ok, why = False, ["signature changed: %s" % norm(a)]
        else:
            UF, METHOD = pn[1], pn[2]
            for path in enumerate_paths(fi.node.body):
                ex = path[-1]
                is_call_method = None
                for it in path:
                    if it[0] == "test":
                        t = it[1]
                        if isinstance(t, ast.Compare) and is_name(t.left, METHOD) and len(t.ops) == 1 and \
                                const_value(t.comparators[0]) == "__call__":
                            v = it[2] if isinstance(t.ops[0], ast.Eq) else (not it[2]) if isinstance(t.ops[0], ast.NotEq) else None
                            is_call_method = v
                        else:
                            ok = False
                            why.append("dispatch depends on another condition: %s" % norm(t))
                if ex[1] != "return" or ex[2].value is None:
                    ok = False
                    why.append("a path does not return a value")
                    continue
                rv = ex[2].value
                if is_call_method is False:
                    if not is_name(rv, "NotImplemented"):
                        ok = False
                        why.append("non-call method returns %s" % norm(rv))
                else:
                    if not _is_forward(rv, pn[0], UF, a.vararg.arg, a.kwarg.arg):
                        ok = False
                        why.append("`__call__` path returns %s instead of self._wrap_numpy(%s, *%s, **%s)" % (
                            norm(rv), UF, a.vararg.arg, a.kwarg.arg))
        run.ob(construct, ok, fi.where(), "; ".join(why) or "forwards ufunc, *inputs, **kwargs; NotImplemented only for "
               "method != '__call__'", "some ufunc (or keyword form such as out=, where=) bypasses the unit wrapper")
    fi = tree.method(base, "__array_function__")
    construct = "core/base.py::Base.__array_function__"
    if fi is None:
        run.violated(construct, base.module.rel, "__array_function__ is not defined", "np.concatenate/np.sum on Arrays")
    else:
        run.analysed(fi)
        pn = params(fi)
        rets = returns_of(fi.node)
        ok = len(pn) == 5 and len(rets) == 1 and rets[0].value is not None and _is_forward(
            rets[0].value, pn[0], pn[1], pn[3], pn[4]) and len(list(enumerate_paths(fi.node.body))) == 1
        run.ob(construct, ok, fi.where(), "returns %s" % (norm(rets[0].value) if rets and rets[0].value is not None else "?"),
               "an array function (np.sum, np.concatenate, axis= forms) bypasses the unit wrapper")


def _is_forward(rv, SELF, F, ARGS, KW):
    if not (isinstance(rv, ast.Call) and isinstance(rv.func, ast.Attribute) and rv.func.attr == "_wrap_numpy"
            and is_name(rv.func.value, SELF)):
        return False
    if len(rv.args) != 2 or not is_name(rv.args[0], F):
        return False
    if not (isinstance(rv.args[1], ast.Starred) and is_name(rv.args[1].value, ARGS)):
        return False
    return len(rv.keywords) == 1 and rv.keywords[0].arg is None and is_name(rv.keywords[0].value, KW)


def r2_catalogue(run, tree):
    run.rule("C10.R2", "unit-transforming catalogue is a subset of APPLY_OP_TO_UNIT", "table", "property text of C10", floor=8)
    f = ct.analyse_wrap_numpy(tree)
    run.analysed(f.fi)
    if f.apply_tuple is None:
        run.unresolved(ct.ARRAY + "._wrap_numpy::APPLY_OP_TO_UNIT", f.fi.where(), "unit-transforming set not found")
        return
    for nm in optab.UNIT_TRANSFORMING:
        run.ob("%s::APPLY_OP_TO_UNIT[%s]" % (ct.ARRAY, nm), nm in f.apply_tuple, f.fi.where(),
               "%s %s the set" % (nm, "in" if nm in f.apply_tuple else "MISSING from"),
               "np.%s(a) is labelled with the unit of a" % nm)
    for nm in optab.UNIT_PRESERVING + optab.PREDICATES:
        run.ob("%s::APPLY_OP_TO_UNIT[not %s]" % (ct.ARRAY, nm), nm not in f.apply_tuple, f.fi.where(),
               "%s must not be in the set" % nm, "np.%s applied to unit quantities" % nm, nontrivial=False)
    # derivation / inheritance per path (same as C02.R3)
    from .c02 import unit_derivation_body
    unit_derivation_body(run, tree)


def r3_no_inherit_without_reconcile(run, tree):
    run.rule("C10.R3", "no unit inheritance without reconciling the operands", "path rule", "", floor=1)
    f = ct.analyse_wrap_numpy(tree)
    fi = f.fi
    # a reconciliation is any statement, before the inheriting assignment on the same path, that converts other
    # operands to self.unit (.to(self.unit)) or compares their units with it and raises
    inherit_paths = [p for p in f.paths if p["unit"] == "inherit"]
    if not inherit_paths:
        run.holds(ct.ARRAY + "._wrap_numpy::inherit", fi.where(), "no path lets a result inherit self.unit")
        return
    unreconciled = False
    for p in inherit_paths:
        ok = False
        for it in p["path"]:
            if it[0] == "stmt" and it[1] is p["unit_node"]:
                break
            node = it[1] if it[0] in ("stmt", "test") else None
            if node is None or not isinstance(node, ast.AST):
                continue
            for n in ast.walk(node):
                if isinstance(n, ast.Call) and isinstance(n.func, ast.Attribute) and n.func.attr == "to" and n.args and \
                        isinstance(n.args[0], ast.Attribute) and n.args[0].attr == "unit" and is_name(n.args[0].value, f.SELF):
                    ok = True
                if isinstance(n, ast.Compare) and any(isinstance(x, ast.Attribute) and x.attr in ("unit", "units")
                                                        for x in [n.left] + n.comparators) and \
                        any(isinstance(x, ast.Attribute) and x.attr == "unit" and is_name(x.value, f.SELF)
                            for x in [n.left] + n.comparators):
                    ok = True
        if not ok:
            unreconciled = True
    run.ob(ct.ARRAY + "._wrap_numpy::inherit-self-unit-without-reconciling-operands", not unreconciled,
           fi.where(inherit_paths[0]["unit_node"]),
           "a numeric result of a function outside the unit-transforming set takes self.unit; the other operands' "
           "units are %s" % ("never converted to or compared with it" if unreconciled else "reconciled first"),
           "np.add(Array([1],'m'), Array([1],'cm')) = 2 m; np.concatenate of Arrays in m and cm; np.maximum(m, cm)")


def r4_dtype_gate(run, tree):
    run.rule("C10.R4", "dtype gate: numeric results keep a unit, boolean results are dimensionless", "D7 fincase",
             "numpy dtype model", floor=14)
    ct.check_dtype_gate(run, tree, want_numeric=True, want_bool=True)


def out_aliases(f):
    """local names bound to kwargs.pop('out', ...) / kwargs.get('out', ...) / kwargs['out']"""
    names = set()
    for n in walk_no_nested(f.fi.node):
        if isinstance(n, ast.Assign) and len(n.targets) == 1 and isinstance(n.targets[0], ast.Name):
            v = n.value
            if isinstance(v, ast.Call) and isinstance(v.func, ast.Attribute) and is_name(v.func.value, f.KW) and \
                    v.func.attr in ("pop", "get") and v.args and const_value(v.args[0]) == "out":
                names.add(n.targets[0].id)
            if isinstance(v, ast.Subscript) and is_name(v.value, f.KW) and const_value(v.slice) == "out":
                names.add(n.targets[0].id)
    return names


def check_out_branch(run, tree, aliasing=True):
    f = ct.analyse_wrap_numpy(tree)
    fi = f.fi
    run.analysed(fi)
    n_out = 0
    aliases = out_aliases(f)
    f.out_aliases = aliases
    for p in f.paths:
        has_out = None
        for test, outcome in p["conds"]:
            if isinstance(test, ast.Compare) and const_value(test.left) == "out" and len(test.ops) == 1 and is_name(
                    test.comparators[0], f.KW):
                has_out = outcome if isinstance(test.ops[0], ast.In) else (not outcome)
            if isinstance(test, ast.Compare) and isinstance(test.left, ast.Name) and test.left.id in aliases and len(test.ops) == 1 \
                    and isinstance(test.comparators[0], ast.Constant) and test.comparators[0].value is None:
                has_out = outcome if isinstance(test.ops[0], ast.IsNot) else (not outcome)
            if isinstance(test, ast.Name) and test.id in aliases:
                has_out = outcome
        if p["exit"][1] != "return":
            continue
        rv = p["exit"][2].value
        if has_out:
            n_out += 1
            # find the unit store on kwargs["out"][0]
            stored = None
            for it in p["path"]:
                if it[0] == "stmt" and isinstance(it[1], ast.Assign):
                    for t in it[1].targets:
                        if isinstance(t, ast.Attribute) and t.attr == "unit" and _is_out0(t.value, f.KW, aliases):
                            stored = it[1]
            ok_store = stored is not None and is_name(stored.value, "unit")
            run.ob(ct.ARRAY + "._wrap_numpy::out-unit-store", ok_store, fi.where(stored) if stored else fi.where(),
                   "with out=: %s" % ("the derived unit is assigned to out[0].unit" if ok_store else
                                      "the unit of the out object is not updated with the derived unit"),
                   "x *= y keeps the old unit of x")
            run.ob(ct.ARRAY + "._wrap_numpy::out-returned", rv is not None and _is_out0(rv, f.KW, aliases), fi.where(p["exit"][2]),
                   "with out=: returns %s" % (norm(rv) if rv is not None else "None"),
                   "x += y rebinds x to a new object: other references to the same Array do not see the update")
        elif has_out is False:
            ok = isinstance(rv, ast.Call) and any(k.arg == "unit" and is_name(k.value, "unit") for k in rv.keywords) and \
                any(k.arg == "values" for k in rv.keywords)
            run.ob(ct.ARRAY + "._wrap_numpy::result-wrapped", ok, fi.where(p["exit"][2]),
                   "without out=: returns %s" % (norm(rv)[:80] if rv is not None else "None"),
                   "the derived unit is not attached to the result", nontrivial=False)
    if n_out == 0:
        run.unresolved(ct.ARRAY + "._wrap_numpy::out-branch", fi.where(), "no path handles out=")
    if not aliasing:
        return
    # numpy must receive out (so that it writes into the existing buffer): the result call forwards the processed kwargs
    rc = None
    for p in f.paths:
        if p["result_call"] is not None:
            rc = p["result_call"]
    if rc is None:
        run.unresolved(ct.ARRAY + "._wrap_numpy::numpy-call", fi.where(), "call of `func` on the raw arrays not found")
        return
    fwd = False
    for k in rc.keywords:
        if k.arg is None:
            v = k.value
            if is_name(v, f.KW):
                fwd = "raw"
            elif isinstance(v, ast.Call) and isinstance(v.func, ast.Attribute) and v.func.attr == "_extract_arrays_from_kwargs" \
                    and len(v.args) == 1 and is_name(v.args[0], f.KW):
                fwd = "extracted"
    removed = []
    for n in walk_no_nested(fi.node):
        if isinstance(n, ast.Call) and isinstance(n.func, ast.Attribute) and is_name(n.func.value, f.KW) and \
                n.func.attr in ("pop", "popitem", "clear"):
            removed.append(n)
        if isinstance(n, ast.Delete):
            for t in n.targets:
                if root_name(t) == f.KW:
                    removed.append(n)
        if isinstance(n, ast.Assign):
            for t in n.targets:
                if is_name(t, f.KW):
                    removed.append(n)
    run.ob(ct.ARRAY + "._wrap_numpy::out-forwarded-to-numpy", fwd == "extracted" and not removed,
           fi.where(removed[0]) if removed else fi.where(rc),
           "numpy call receives %s%s" % ({"raw": "the raw kwargs (Arrays, not buffers)", "extracted": "the buffers extracted "
                                          "from all kwargs", False: "no kwargs"}[fwd],
                                         "; kwargs modified before the call: %s" % norm(removed[0])[:60] if removed else ""),
           "x += y allocates a new buffer: slices of x taken before the update and x no longer share data")
    # the argument arrays: sequence case + plain case
    ok_args = any(isinstance(a, ast.Starred) for a in rc.args)
    run.ob(ct.ARRAY + "._wrap_numpy::numpy-call-args", ok_args, fi.where(rc), "numpy is called with %s" % norm(rc)[:90],
           "operands dropped", nontrivial=False)


def _is_out0(node, KW, aliases=()):
    """kwargs["out"][0]  or  <alias of kwargs['out']>[0]"""
    if not (isinstance(node, ast.Subscript) and const_value(node.slice) == 0):
        return False
    v = node.value
    if isinstance(v, ast.Name) and v.id in aliases:
        return True
    return isinstance(v, ast.Subscript) and is_name(v.value, KW) and const_value(v.slice) == "out"


def r5_out(run, tree):
    run.rule("C10.R5", "out=: unit written to the out object, that object returned", "path rule", "",
             floor=2)
    check_out_branch(run, tree, aliasing=False)


def r6_helpers(run, tree):
    run.rule("C10.R6", "helpers extract arrays/units from every argument; other operands pass through", "D7 fincase", "",
             floor=10)
    check_wrap_helpers(run, tree)
    ci = tree.cls(ct.ARRAY)
    fi = tree.method(ci, "_extract_arrays_from_kwargs")
    construct = ct.ARRAY + "._extract_arrays_from_kwargs"
    if fi is None:
        run.unresolved(construct, ci.module.rel, "helper not found")
        return
    ret = single_return(fi)
    ok = isinstance(ret, ast.DictComp) and len(ret.generators) == 1 and not ret.generators[0].ifs and \
        isinstance(ret.generators[0].iter, ast.Call) and norm(ret.generators[0].iter) == "%s.items()" % params(fi)[1]
    run.ob(construct, ok, fi.where(), "maps over %s" % ("all keyword arguments" if ok else norm(ret)[:80] if ret is not None else "?"),
           "a keyword operand (out=, where=) reaches numpy as an Array")


def r7_sequences(run, tree):
    run.rule("C10.R7", "sequence first argument unpacked element-wise (concatenate/stack)", "path rule", "", floor=1)
    f = ct.analyse_wrap_numpy(tree)
    fi = f.fi
    found = None
    for n in walk_no_nested(fi.node):
        if isinstance(n, ast.If) and isinstance(n.test, ast.Call) and is_name(n.test.func, "isinstance"):
            a0 = n.test.args[0]
            if isinstance(a0, ast.Subscript) and is_name(a0.value, f.ARGS) and const_value(a0.slice) == 0:
                found = n
    if found is None:
        run.unresolved(ct.ARRAY + "._wrap_numpy::sequence-case", fi.where(), "isinstance(args[0], (tuple, list)) test not found")
        return
    types = {norm(e) for e in (found.test.args[1].elts if isinstance(found.test.args[1], ast.Tuple) else [found.test.args[1]])}
    body_src = " ".join(norm(s) for s in found.body)
    ok = {"tuple", "list"} <= types and "_extract_arrays_from_args(%s[0])" % f.ARGS in body_src and \
        "_extract_arrays_from_args(%s[1:])" % f.ARGS in body_src
    run.ob(ct.ARRAY + "._wrap_numpy::sequence-case", ok, fi.where(found),
           "sequence case handles %s and extracts from args[0] elements and args[1:]: %s" % (sorted(types), ok),
           "np.concatenate([a, b]) passes Arrays (not buffers) to numpy")


RULES = [r1_protocols, r2_catalogue, r3_no_inherit_without_reconcile, r4_dtype_gate, r5_out, r6_helpers, r7_sequences]
