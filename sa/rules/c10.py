"""C10 — numpy functions on Arrays return dimensionally correct units or refuse."""
from __future__ import annotations

import ast

from . import array_folds as af

from . import quantity_stack as qs

EXPLANATION = "Folds of core/base.py and core/array.py: (R1) __array_ufunc__/__array_function__ forward the function and ALL arguments to the one wrapper; (R2) for every function of the property's unit-transforming catalogue the unit is derived by applying the function to the operand units, others inherit; (R3) np.add(a [m], b [cm]): a numeric result may inherit self.unit only after the other operands were reconciled (today: not done -> known finding K1); (R4) dtype gate over the 16-dtype model; (R5) out=: unit stored on the out object, which is returned; (R6) buffers/units extracted from every argument kind; sequence first arguments; (R7) Array.to exact (shared); (R8) end-to-end: Base/Array interpreted under models of numpy's dispatch (ufunc call normalises out= to a tuple, ufunc methods are offered with method=reduce/..., array functions pass the caller's kwargs): the result's physical value (values x symbolic unit scale) is compared with what the function computes. Array functions with out=<Array>, ufunc methods and repeated powers are folded end to end under models of numpy's dispatch (R8). (R9) conversion history (no memo of an earlier conversion); out= on a strided view is written through (numpy.require modelled). R7 includes np.add/subtract/multiply(a, b, out=buf) with buf in another unit."
NOT_DECIDED = "numpy's values; functions whose correct unit is neither inherited nor in the property's catalogue (var, prod, argsort, ...)"
TRUSTED = ('CPython ast', 'numpy/pint behave as documented', 'S4 catalogue (from the property text)', 'numpy dtype model', 'the interpreter sa/models.py (ModelEval) and its library models')

TECHNIQUE = 'static analysis: abstract interpretation of the numpy dispatch over function-name/dtype/operand-kind cases'

def r1_protocols(run, tree):
    run.rule("C10.R1", "numpy protocols forward everything to _wrap_numpy", "D7 fold of Base.__array_ufunc__/__array_function__", "", floor=2)
    af.check_protocols_fold(run, tree)




def r2_catalogue(run, tree):
    run.rule("C10.R2", "functions of the property's unit-transforming catalogue get the unit derived by applying them to the operand units; "
             "others inherit", "D7 fold of _wrap_numpy per function name", "property text of C10", floor=8)
    af.check_wrap_numpy_fold(run, tree, want=("derive", "inherit"))


def r3_no_inherit_without_reconcile(run, tree):
    run.rule("C10.R3", "no unit inheritance without reconciling the operands", "D7 fold: np.add(a [m], b [cm])", "", floor=1)
    af.check_wrap_numpy_fold(run, tree, want=("k1",))


def r4_dtype_gate(run, tree):
    run.rule("C10.R4", "dtype gate: numeric results keep a unit, boolean results are dimensionless", "D7 fold over the dtype model",
             "numpy dtype model", floor=14)
    af.check_wrap_numpy_fold(run, tree, want=("gate-numeric", "gate-bool"))








def r5_out(run, tree):
    run.rule("C10.R5", "out=: unit written to the out object, that object returned", "D7 fold of _wrap_numpy with out=", "",
             floor=2)
    af.check_wrap_numpy_fold(run, tree, want=("out", "out-alias"))


def r6_helpers(run, tree):
    run.rule("C10.R6", "buffers/units extracted from every argument; other operands pass through", "D7 fold over operand kinds", "",
             floor=4)
    af.check_wrap_numpy_fold(run, tree, want=("operands",))


def r7_conversion(run, tree):
    run.rule("C10.R7", "the conversion operands go through is exact (shared with C02/C08): Array.to scales by the unit ratio, no cast", "D7 fold of Array.to", "", floor=6)
    af.check_to_fold(run, tree)


def r8_end_to_end(run, tree):
    run.rule("C10.R8", "end to end through numpy's dispatch: repeated powers, ufunc methods (reduce/accumulate/outer/at: refused, or labelled for what they compute), "
             "array functions with out=<Array> (refused with out untouched, or out relabelled and returned)", "D7 fold of Base/Array with numpy ufuncs, ufunc methods and array functions as dispatching models", "", floor=10)
    qs.check_numpy_stack(run, tree)


def r_conversion_history(run, tree):
    run.rule("C10.R9", "a conversion is computed from the operand as it is NOW: converting, changing the buffer in place, converting again gives the new values (no memo of an earlier conversion; shared with C02.R7/C08.R6)",
             "D7 history fold of Array.to with symbolic buffers", "", floor=1)
    from . import quantity_stack as qs
    qs.check_to_stack(run, tree, only=("history",))


def r_registry(run, tree):
    run.rule("C10.R10", "'incompatible dimensions raise' rests on the one pint registry (shared with C08.R5/C07.R5): cgs system, NO context enabled (a context such as "
             "'spectroscopy' makes length, frequency and energy mutually convertible, so nm + THz stops raising), units parsed as written",
             "who-may-call + D7 fold of units/units.py::Units on a recording registry", "", floor=4)
    from .c08 import check_registry
    check_registry(run, tree)


def r_masked(run, tree):
    from . import array_folds as af
    run.rule("C10.R11", "an Array holding a numpy masked array keeps the mask through construction, copy(), to(), indexing, .values and the numpy dispatch "
             "(numpy.asarray / numpy.array on the way hand the hidden entries back as ordinary values)", "D7 fold of the Array class over a masked buffer token", "", floor=6)
    af.check_masked_buffers(run, tree)


RULES = [r_masked, r_registry, r7_conversion, r1_protocols, r2_catalogue, r3_no_inherit_without_reconcile, r4_dtype_gate, r5_out, r6_helpers, r8_end_to_end, r_conversion_history]


def t_numpy_space(run, tree):
    run.rule("C10.T1", "thorough: np.power (exponents -2..3, both orders), square, reciprocal, negative over 15 units and np.multiply / np.true_divide over all ordered unit pairs, "
             "called as numpy functions: the result denotes the function of the physical quantities", "D7 fold of Base/Array with dispatching numpy models and symbolic-scale units", "", floor=2)
    qs.check_numpy_unit_space(run, tree)


THOROUGH_RULES = [t_numpy_space]
