"""C12 — a level-limited load returns the tree truncated at that level, without holes."""
from __future__ import annotations


EXPLANATION = '(R1) Loader.load fold: the level cap is computed from the mesh predicates before the readers are initialised, bounds the level loop, is absent without a level predicate and rebuilt on every load; (R2) leaf flag over {son} x {below / at the cap}; (R3) find_max_amr_level on a list model of the levels 1..6 over 7 predicate shapes (bands, single level, lower bound): the highest accepted level; hilbert_cpu_list hands lmax and levelmax on; (R4) a level-limited reload starts from empty per-variable pieces (descriptor_to_variables history; two-load history of the loader). (R5) cells of every traversed level carry their stored values (body fold, shared); the loader scenarios use a concrete level predicate with a lower bound, so a level mask applied with the wrong origin shows in the traversal. The AMR level header is folded over a history of loads (same level again after a new load / a new file). (R6) the AMR reader\'s file list is reset at every (re)initialisation (shared with C15.R2).'
NOT_DECIDED = "predicates that are not monotone in a way the 7 shapes do not represent; levelmax above the model's 6"
TRUSTED = ('CPython ast', 'the interpreter sa/models.py (ModelEval) and its library models')
TECHNIQUE = 'static analysis: finite-scenario folding of the loader and of the level-cap helper on a list model'

from . import loader_folds as lfold
from . import io_folds as iof
from . import layout_folds as lay


def r1_r2(run, tree):
    run.rule("C12.R1", "level cap live: computed from the mesh predicates before the readers are initialised, bounds the level loop, "
             "absent without a level predicate, rebuilt on every load", "D7 fold of Loader.load over recording readers on 9 scenarios + a two-load history, compared with the traversal specification", "", floor=10)
    lfold.check_load(run, tree)


def r2_leaf(run, tree):
    run.rule("C12.R2", "cells at the cap level are leaves", "D7", "", floor=3)
    lay.check_leaf_rule(run, tree)


def r3(run, tree):
    run.rule("C12.R3", "find_max_amr_level returns the highest accepted level", "D7 on a list model", "", floor=6)
    iof.check_find_max_level(run, tree)
    from . import hilbert_folds as hf
    hf.check_hilbert_cpu_list_fold(run, tree)


def r_shared_c12_r4(run, tree):
    run.rule("C12.R4", "a level-limited reload starts from empty per-variable pieces (no cells of deeper levels left from an earlier load)", "D7 folds (shared)", "", floor=1)
    iof.check_descriptor_to_variables(run, tree)
    lfold.check_load(run, tree)


def r5_stored_values(run, tree):
    run.rule("C12.R5", "cells of every level that is traversed - the coarse cells at the cap included - carry their stored values: each selected variable of each mesh reader "
             "is decoded from its own record whatever the level (shared with C01/C13)", "D1/D7 fold of read_variables on a symbolic file", "S1", floor=4)
    lay.check_bodies(run, tree, aspects=("values",))


def r6_reader_state(run, tree):
    run.rule("C12.R6", "a level-limited load reads the files of THIS call: the AMR reader's file list is reset at every initialisation, so a list left by an earlier "
             "position selection cannot punch holes into the truncated tree (shared with C15.R2)", "D7 history fold of reader.initialize (on / off / files gone)", "", floor=1)
    from . import io_folds as iof
    iof.check_reader_initialize(run, tree)


RULES = [r_shared_c12_r4, r1_r2, r2_leaf, r3, r5_stored_values, r6_reader_state]


def t_load_space(run, tree):
    run.rule("C12.T1", "thorough: Loader.load folded over 324 scenarios (ndim 1-3 x ncpu 1-3 x levelmax 2-4 x nboundary 0-2 x level predicate x explicit cpu_list, with empty blocks) "
             "and compared with the traversal specification", "D7 fold of Loader.load over recording readers", "S1 traversal", floor=3)
    lfold.check_load_space(run, tree)


THOROUGH_RULES = [t_load_space]
