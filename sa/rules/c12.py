"""C12 — a level-limited load returns the tree truncated at that level, without holes."""
from __future__ import annotations

from . import io_rules as io
from . import io_rules2 as io2
from . import loader_rules as lr

EXPLANATION = (
    "Static rules: (R1) the level cap is live: key-domain propagation — _select is keyed by reader kind ({mesh, part, sink} "
    "from the kind literals of the reader constructors), so every literal used to test or subscript it must be a kind; the "
    "call of find_max_amr_level is reachable and guarded only by the presence of a level predicate; (R2) its result is "
    "stored in meta['lmax'], which bounds the level loop and is the lmax of the leaf rule (truth table: cells at the deepest "
    "loaded level are leaves whatever their son index says); (R3) find_max_amr_level is folded over level predicates "
    "(l<=k, l<k, a<=l<b, l==k, l>=a) on a list model of numpy and must return the highest accepted level; "
    "hilbert pre-selection receives both lmax and levelmax.")
NOT_DECIDED = "that the returned cells tile the domain exactly once (follows from the leaf rule and the tree being a tree; argued)"
TRUSTED = ("CPython ast", "list model of np.arange/argwhere/ravel/max")
TECHNIQUE = "static analysis: key-domain (dead guard) propagation, def-use of the level cap, finite-case folding"

from . import loader_folds as lfold
from . import io_folds as iof
from . import layout_folds as lay


def r1_r2(run, tree):
    run.rule("C12.R1", "level cap live: computed from the mesh predicates before the readers are initialised, bounds the level loop, "
             "absent without a level predicate, rebuilt on every load", "D7 fold of Loader.load over recording readers on 9 scenarios + a two-load history, compared with the traversal specification", "", floor=10)
    lfold.check_load(run, tree)


def r2_leaf(run, tree):
    run.rule("C12.R2", "cells at the cap level are leaves", "D7", "", floor=3)
    lay.check_leaf_rule(run, tree)


def r3(run, tree):
    run.rule("C12.R3", "find_max_amr_level returns the highest accepted level", "D7 on a list model", "", floor=6)
    iof.check_find_max_level(run, tree)
    from . import hilbert_folds as hf
    hf.check_hilbert_cpu_list_fold(run, tree)


def r_shared_c12_r4(run, tree):
    run.rule("C12.R4", "a level-limited reload starts from empty per-variable pieces (no cells of deeper levels left from an earlier load)", "D7 folds (shared)", "", floor=1)
    iof.check_descriptor_to_variables(run, tree)
    lfold.check_load(run, tree)


RULES = [r_shared_c12_r4, r1_r2, r2_leaf, r3]
