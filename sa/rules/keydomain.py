"""Key-domain propagation: the set of group names the loader can produce = the `kind` literals of the reader classes."""
from __future__ import annotations

import ast

from ..source import AnalysisError, const_value, walk_no_nested, norm


def _reader_kinds_by_interpretation(tree):
    """Loader.__init__ interpreted: the readers dict it builds (however it is written) and the `kind` each reader object ends up with"""
    from ..models import ModelEval, PyObj
    loader = tree.func("io/loader.py::Loader.__init__")
    hooks = {"ext": {}, "globals": {}, "class": {}, "pkgfunc": {"io/utils.py::generate_fname": lambda *a, **k: "OUTDIR"}}
    ev = ModelEval(tree, loader, {}, hooks)
    obj = ev.instantiate(loader.cls, [1, "PATH"], {}, None)
    rd = obj._attrs.get("readers")
    if not isinstance(rd, dict) or not rd or not all(isinstance(v, PyObj) for v in rd.values()):
        raise AnalysisError("Loader.__init__ does not leave a dict of reader objects in self.readers: %r" % (rd,))
    readers = {k: v._cls for k, v in rd.items()}
    kinds = {k: ev.obj_getattr(v, "kind") for k, v in rd.items()}
    if not all(isinstance(k, str) for k in kinds.values()):
        raise AnalysisError("reader kinds are not strings: %r" % (kinds,))
    return readers, kinds


def reader_kinds(tree):
    """{reader key in Loader.readers: kind literal} and the set of kinds."""
    try:
        return _reader_kinds_by_interpretation(tree)
    except Exception as e:          # fall back to reading the literal; if that fails too the anchor is reported as missing
        interp_error = e
    loader = tree.func("io/loader.py::Loader.__init__")
    readers = {}
    for n in walk_no_nested(loader.node):
        if isinstance(n, ast.Assign) and isinstance(n.value, ast.Dict) and norm(n.targets[0]).endswith(".readers"):
            for k, v in zip(n.value.keys, n.value.values):
                if isinstance(v, ast.Call):
                    cls = tree.resolve_expr(loader.module, v.func)
                    readers[const_value(k)] = cls
    if not readers:
        raise AnalysisError("Loader.readers dict literal not found")
    kinds = {}
    for key, cls in readers.items():
        if cls is None or not hasattr(cls, "methods"):
            raise AnalysisError("reader class for %r not resolved" % key)
        kind = None
        init = cls.methods.get("__init__")
        if init is not None:
            for n in walk_no_nested(init.node):
                if isinstance(n, ast.Call) and isinstance(n.func, ast.Attribute) and n.func.attr == "__init__":
                    for k in n.keywords:
                        if k.arg == "kind":
                            kind = const_value(k.value)
                    if n.args and kind is None:
                        kind = const_value(n.args[0])
                if isinstance(n, ast.Assign) and norm(n.targets[0]).endswith(".kind"):
                    kind = const_value(n.value)
        if not isinstance(kind, str):
            raise AnalysisError("kind literal of reader %r not found" % key)
        kinds[key] = kind
    return readers, kinds
