"""C13 — loading a subset of groups or variables equals projecting the full load."""
from __future__ import annotations

import ast


EXPLANATION = "(R1) per-block bodies and the particle file interpreted on a symbolic file: selected and skipped variables (types d/i/b) and step_over advance the byte position alike, every decode on its own record; (R2) descriptor_to_variables over the forms of select (dict with predicate / False, True, False, list, empty) with a previous load's pieces present; Loader.load fold over select None / dict / list / unknown group; (R3) only initialised readers open files and see records; reader.initialize histories on / off / files gone; (R4) vector assembly over 12 name sets; derived variables over 4 input sets. The body fold runs under partial selections of the AMR variables (each remaining variable from its own axis). (R5) an excluded sink group is not returned whatever the sink file looks like. R4 also requires that derived variables leave every loaded variable untouched. R2/R3 also require that load() leaves the caller's select / cpu_list / sortby unchanged (variable lists per group included)."
NOT_DECIDED = 'values; descriptors with types other than d/i/b'
TRUSTED = ('CPython ast', 'S1 layout', 'the interpreter sa/models.py (ModelEval) and its library models')
TECHNIQUE = 'static analysis: abstract interpretation of the readers on a symbolic file, finite-case folding of the selection logic'

from . import loader_folds as lfold
from . import io_folds as iof
from . import layout_folds as lay


def r1(run, tree):
    run.rule("C13.R1", "skip = read, in bytes (mesh blocks, step_over, particle header)", "D1 + sibling agreement", "", floor=12)
    lay.check_bodies(run, tree)
    lay.check_part_header(run, tree)


def r2(run, tree):
    run.rule("C13.R2", "selection normalisation", "D7", "", floor=12)
    iof.check_descriptor_to_variables(run, tree)
    lfold.check_load(run, tree)


def r3(run, tree):
    run.rule("C13.R3", "inactive readers are inert (Loader.load fold: only initialised readers open files and see records)", "D7 fold + path rule", "", floor=3)
    lfold.check_load(run, tree)
    iof.check_reader_initialize(run, tree)




def r4(run, tree):
    run.rule("C13.R4", "vector assembly; derived variables", "D7 folding over name sets + D1", "", floor=10)
    iof.check_vector_assembly(run, tree)
    iof.check_derived_variables(run, tree)


def r5_sink_excluded(run, tree):
    run.rule("C13.R5", "an excluded sink group is not returned, whatever the sink file looks like (missing, empty, populated); shared with C14.R4",
             "D7 fold of SinkReader.initialize over header forms and histories", "", floor=3)
    iof.check_sink(run, tree)


RULES = [r1, r2, r3, r4, r5_sink_excluded]


def t_all_selections(run, tree):
    run.rule("C13.T1", "thorough: one (level, domain) block folded for EVERY selection of the six AMR variables (64) and every selection of the variables of each mesh reader (3 x 8): "
             "each selected variable is filled from its own record / axis and labelled with its own unit, unselected ones are not written, the block length is the same for all selections", "D1/D7 fold of read_variables / step_over on a symbolic file (S1 alignment by byte position)", "S1", floor=80)
    lay.check_bodies(run, tree, all_subsets=True)




def t_load_space(run, tree):
    run.rule("C13.T2", "thorough: Loader.load folded over 324 scenarios (ndim 1-3 x ncpu 1-3 x levelmax 2-4 x nboundary 0-2 x level predicate x explicit cpu_list, with empty blocks) "
             "and compared with the traversal specification", "D7 fold of Loader.load over recording readers", "S1 traversal", floor=3)
    lfold.check_load_space(run, tree)


THOROUGH_RULES = [t_load_space, t_all_selections]
