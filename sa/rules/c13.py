"""C13 — loading a subset of groups or variables equals projecting the full load."""
from __future__ import annotations

import ast

from ..poly import S, Poly
from ..source import norm, walk_no_nested
from . import io_rules as io
from . import io_rules2 as io2
from .io_rules2 import TextEval

EXPLANATION = (
    "Static rules: (R1) skip = read in bytes: for every mesh reader class the per-block byte effect with every variable read "
    "equals the effect with every variable skipped and equals step_over (polynomial identities), likewise the particle "
    "header loop; (R2) selection normalisation folded over all select shapes: descriptor_to_variables (dict/True/False/list x "
    "listed/unlisted) and Loader.load's per-kind _select (None, dicts with valid/unknown/switched-off groups, lists); every "
    "reader initialised with the selection of its own kind; (R3) inactive readers are inert: only initialised readers join "
    "the file loop, the AMR reader is added whenever a mesh reader is active; (R4) vector assembly folded over name sets "
    "(complete/incomplete component sets, infix and suffix names, names containing an earlier 'x', 1/2/3-D); derived "
    "variables formulas.")
NOT_DECIDED = "bit-identity of the projected arrays (follows from R1 + the C01 layout rules); numpy concatenation order"
TRUSTED = ("CPython ast", "S1 layout", "assumption A1 (mesh variables of type d)")
TECHNIQUE = "static analysis: polynomial byte-effect identities between sibling branches; finite-case folding of the selection logic"

from . import loader_folds as lfold
from . import io_folds as iof
from . import layout_folds as lay


def r1(run, tree):
    run.rule("C13.R1", "skip = read, in bytes (mesh blocks, step_over, particle header)", "D1 + sibling agreement", "", floor=12)
    lay.check_bodies(run, tree)
    lay.check_part_header(run, tree)


def r2(run, tree):
    run.rule("C13.R2", "selection normalisation", "D7", "", floor=12)
    iof.check_descriptor_to_variables(run, tree)
    lfold.check_load(run, tree)


def r3(run, tree):
    run.rule("C13.R3", "inactive readers are inert (Loader.load fold: only initialised readers open files and see records)", "D7 fold + path rule", "", floor=3)
    lfold.check_load(run, tree)
    iof.check_reader_initialize(run, tree)




def r4(run, tree):
    run.rule("C13.R4", "vector assembly; derived variables", "D7 folding over name sets + D1", "", floor=10)
    iof.check_vector_assembly(run, tree)
    iof.check_derived_variables(run, tree)


RULES = [r1, r2, r3, r4]
