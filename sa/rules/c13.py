"""C13 — loading a subset of groups or variables equals projecting the full load."""
from __future__ import annotations

import ast

from ..poly import S, Poly
from ..source import norm, walk_no_nested
from . import io_rules as io
from . import io_rules2 as io2
from .io_rules2 import TextEval

EXPLANATION = (
    "Static rules: (R1) skip = read in bytes: for every mesh reader class the per-block byte effect with every variable read "
    "equals the effect with every variable skipped and equals step_over (polynomial identities), likewise the particle "
    "header loop; (R2) selection normalisation folded over all select shapes: descriptor_to_variables (dict/True/False/list x "
    "listed/unlisted) and Loader.load's per-kind _select (None, dicts with valid/unknown/switched-off groups, lists); every "
    "reader initialised with the selection of its own kind; (R3) inactive readers are inert: only initialised readers join "
    "the file loop, the AMR reader is added whenever a mesh reader is active; (R4) vector assembly folded over name sets "
    "(complete/incomplete component sets, infix and suffix names, names containing an earlier 'x', 1/2/3-D); derived "
    "variables formulas.")
NOT_DECIDED = "bit-identity of the projected arrays (follows from R1 + the C01 layout rules); numpy concatenation order"
TRUSTED = ("CPython ast", "S1 layout", "assumption A1 (mesh variables of type d)")
TECHNIQUE = "static analysis: polynomial byte-effect identities between sibling branches; finite-case folding of the selection logic"

from . import loader_folds as lfold
from . import io_folds as iof
from . import layout_folds as lay


def r1(run, tree):
    run.rule("C13.R1", "skip = read, in bytes (mesh blocks, step_over, particle header)", "D1 + sibling agreement", "", floor=12)
    lay.check_bodies(run, tree)
    lay.check_part_header(run, tree)


def r2(run, tree):
    run.rule("C13.R2", "selection normalisation", "D7", "", floor=12)
    iof.check_descriptor_to_variables(run, tree)
    lfold.check_load(run, tree)


def r3(run, tree):
    run.rule("C13.R3", "inactive readers are inert (Loader.load fold: only initialised readers open files and see records)", "D7 fold + path rule", "", floor=3)
    lfold.check_load(run, tree)
    iof.check_reader_initialize(run, tree)


def check_derived_variables(run, tree):
    fi = tree.func("config/defaults.py::additional_variables")
    run.analysed(fi)
    D = fi.node.args.args[0].arg
    for n in walk_no_nested(fi.node):
        if isinstance(n, ast.Assign) and norm(n.targets[0]).startswith("%s['mesh'][" % D):
            key = norm(n.targets[0]).split("[")[2].strip("']\"")
            env = {"%s['mesh']['B_left']" % D: S("BL"), "%s['mesh']['B_right']" % D: S("BR"), "%s['mesh']['density']" % D: S("rho"),
                   "%s['mesh']['dx']" % D: S("dx")}
            v = n.value
            if isinstance(v, ast.Call) and isinstance(v.func, ast.Attribute) and v.func.attr == "to":
                v = v.func.value
            ev = TextEval(tree, fi, env, {}, {})
            ev.constant = lambda node: Poly.const(node.value) if isinstance(node.value, (int, float)) else node.value
            try:
                got = ev.ev(v)
            except Exception as e:
                run.unresolved("config/defaults.py::additional_variables[%s]" % key, fi.where(n), "cannot evaluate: %s" % e)
                continue
            want = {"B_field": (S("BL") + S("BR")) * Poly.const(0.5), "mass": S("rho") * S("dx") * S("dx") * S("dx")}.get(key)
            if want is None:
                continue
            run.ob("config/defaults.py::additional_variables[%s]" % key, isinstance(got, Poly) and got == want, fi.where(n),
                   "%s = %r" % (key, got), "derived variable %s is not %s" % (key, {"B_field": "the mean of the face fields", "mass": "density * dx**3"}[key]))
    keys = [norm(x) for x in walk_no_nested(fi.node) if isinstance(x, ast.Subscript) and isinstance(x.value, ast.Name) and x.value.id == D]
    run.ob("config/defaults.py::additional_variables::group-key", all(k == "%s['mesh']" % D for k in keys) and keys, fi.where(),
           "derived variables read and written in %s" % sorted(set(keys)), "KeyError swallowed by the try/except: derived variables silently missing")


def r4(run, tree):
    run.rule("C13.R4", "vector assembly; derived variables", "D7 folding over name sets + D1", "", floor=10)
    iof.check_vector_assembly(run, tree)
    check_derived_variables(run, tree)


RULES = [r1, r2, r3, r4]
