"""io/hilbert.py folded (ModelEval):
  _read_bound_key   on an info-file model whose numeric fields are abstract tokens
  _hilbert3d        on the COMPLETE domain of cells for bit lengths 1 and 2 (8 and 64 cells), against the checker's own
                    automaton driven by the state table found in the function (the table itself is checked by axioms that
                    hold for every bit length: see check_hilbert_table)
  _get_cpu_list     over every order type of a cube's key range against the cpu key intervals, every cube-level class of the
                    box and the 8-corner cube product (bound keys / Hilbert keys are stubs)
  hilbert_cpu_list  over abstract predicates (symbolic first/last selected centre) and the early-exit forms
"""
from __future__ import annotations

import ast
import itertools

from ..models import ModelEval, Raised
from ..peval import Model, Unsupported, ProgramRaised
from ..source import AnalysisError, const_value
from ..symnp import Sym, Sc

ERR = (Unsupported, AnalysisError)
HIL = "io/hilbert.py"


# =============================================================================== _read_bound_key
class Field(Model):
    def __init__(self, tag):
        self.tag = tag

    def __eq__(self, o):
        return isinstance(o, Field) and o.tag == self.tag

    def __hash__(self):
        return hash(self.tag)

    def __repr__(self):
        return "Field%r" % (self.tag,)


class Line(Model):
    """a line of the info file: splitting yields its fields (strings for headers, abstract numbers for table rows)"""

    def __init__(self, fields):
        self.fields = list(fields)

    def split(self, *a):
        return list(self.fields)

    def strip(self, *a):
        return self

    rstrip = lstrip = strip

    def __contains__(self, x):
        return x in self.fields

    def startswith(self, x):
        return bool(self.fields) and self.fields[0] == x


class InfoFile(Model):
    def __init__(self, lines):
        self.lines = lines

    def readlines(self):
        return list(self.lines)

    def __iter__(self):
        return iter(self.lines)

    def read(self):
        raise Unsupported("read() of the info file as one string")


def check_bound_key_parse(run, tree):
    fi = tree.func(HIL + "::_read_bound_key")
    run.analysed(fi)
    ncpu = 3
    header = [Line(["ncpu", "=", "3"]), Line(["ordering", "type=hilbert"]), Line([])]
    rows = [Line([Field(("dom", k)), Field(("min", k)), Field(("max", k))]) for k in range(ncpu)]
    lines = header + [Line(["DOMAIN", "ind_min", "ind_max"])] + rows
    conv = lambda name: (lambda x, *a: ("%s" % name, x) if isinstance(x, (Field, tuple)) else __builtins__[name](x, *a) if isinstance(__builtins__, dict) else getattr(__builtins__, name)(x, *a))
    hooks = {"builtins": {"open": lambda *a, **k: InfoFile(lines), "int": conv("int"), "float": conv("float")}, "ext": {}}
    construct = HIL + "::_read_bound_key"
    try:
        try:
            got = ModelEval(tree, fi, {}, hooks).invoke(fi, [], {"infofile": "INFO", "ncpu": ncpu}, None)
        except (Raised, ProgramRaised) as e:
            run.violated(construct, fi.where(), "raises %s" % e, "every Hilbert-ordered output")
            return
        want = [("int", ("float", Field(("min", k)))) for k in range(ncpu)] + [("int", ("float", Field(("max", ncpu - 1))))]
        alt = [("int", Field(("min", k))) for k in range(ncpu)] + [("int", Field(("max", ncpu - 1)))]
        run.ob(construct, got == want, fi.where(), "bound keys = %s" % (got if got != want else "ind_min of every domain row, then ind_max of the last row (parsed as float, then int)"),
               "the key range of the last CPU is open-ended or shifted by one row; keys written in exponent notation (0.1E+05) cannot be parsed")
        # a file without the table: no keys
        got2 = ModelEval(tree, fi, {}, dict(hooks, builtins=dict(hooks["builtins"], open=lambda *a, **k: InfoFile(header)))).invoke(fi, [], {"infofile": "INFO", "ncpu": ncpu}, None)
        run.ob(construct + "[no table]", got2 == [], fi.where(), "info file without a DOMAIN table -> %r" % (got2,), "", nontrivial=False)
        # history: the file behind the same path string now holds another table (another run in the same directory name, a re-run, a relative
        # path after chdir): the keys are read from the file as it is NOW (module-level state persists across the two calls)
        rows3 = [Line([Field(("dom", k)), Field(("min2", k)), Field(("max2", k))]) for k in range(ncpu)]
        lines3 = header + [Line(["DOMAIN", "ind_min", "ind_max"])] + rows3
        got3 = ModelEval(tree, fi, {}, dict(hooks, builtins=dict(hooks["builtins"], open=lambda *a, **k: InfoFile(lines3)))).invoke(fi, [], {"infofile": "INFO", "ncpu": ncpu}, None)
        want3 = [("int", ("float", Field(("min2", k)))) for k in range(ncpu)] + [("int", ("float", Field(("max2", ncpu - 1))))]
        run.ob(construct + "[same path, new contents]", got3 == want3, fi.where(), "second parse of the same path after the file changed: %s" % (
            "keys of the new table" if got3 == want3 else "%r (required the keys of the new table)" % (got3,)),
               "the CPU pre-selection of a later load uses the domain decomposition of an earlier output that was reached through the same path string")
    except ERR as e:
        run.unresolved(construct, fi.where(), "cannot fold: %s" % e)


# =============================================================================== _hilbert3d
class BoolArr(Model):
    kinds = ("ndarray",)

    def __init__(self, n):
        self.v = [False] * int(n)

    def __getitem__(self, i):
        try:
            return self.v[i]
        except (IndexError, TypeError) as e:
            raise Raised("IndexError", None, str(e))

    def __setitem__(self, i, x):
        try:
            if isinstance(i, slice):
                # a strided store arr[2::3] = other: element by element (a scalar is broadcast), lengths must agree as in numpy
                n = len(range(*i.indices(len(self.v))))
                vals = list(x.v) if isinstance(x, BoolArr) else list(x) if isinstance(x, (list, tuple)) else [x] * n
                if len(vals) != n:
                    raise Raised("ValueError", None, "could not broadcast input array from shape (%d,) into shape (%d,)" % (len(vals), n))
                self.v[i] = [bool(e) for e in vals]
                return
            self.v[i] = bool(x)
        except (IndexError, TypeError) as e:
            raise Raised("IndexError", None, str(e))

    def __len__(self):
        return len(self.v)

    def __iter__(self):
        return iter(self.v)


class Table(Model):
    kinds = ("ndarray",)

    def __init__(self, vals, shape=None, order="C"):
        self.vals, self.shape, self.order = list(vals), shape, order

    def reshape(self, *shape, order="C"):
        if len(shape) == 1 and isinstance(shape[0], (tuple, list)):
            shape = tuple(shape[0])
        return Table(self.vals, tuple(shape), order)

    def __getitem__(self, idx):
        if self.shape is None or not isinstance(idx, tuple) or len(idx) != len(self.shape):
            raise Unsupported("table indexed with %r" % (idx,))
        for pos, i in enumerate(idx):
            if isinstance(i, slice):
                rng = range(*i.indices(self.shape[pos]))
                return [self[idx[:pos] + (j,) + idx[pos + 1:]] for j in rng]
        if any(not isinstance(i, int) or not (0 <= i < n) for i, n in zip(idx, self.shape)):
            raise Raised("IndexError", None, "index %r out of bounds for shape %r" % (idx, self.shape))
        flat, mult = 0, 1
        dims = list(zip(idx, self.shape))
        for i, n in (dims if self.order == "F" else reversed(dims)):
            flat += i * mult
            mult *= n
        return self.vals[flat]


class IntVec(Model):
    """a small numpy integer vector (np.arange(n), 2 ** np.arange(n)): fixed-width int64 elements"""
    kinds = ("ndarray",)

    def __init__(self, vals):
        self.vals = list(vals)

    def __rpow__(self, base):
        return IntVec([base ** v for v in self.vals])

    def __mul__(self, k):
        return IntVec([v * k for v in self.vals])

    __rmul__ = __mul__

    def __len__(self):
        return len(self.vals)

    def __getitem__(self, i):
        return self.vals[i]


class NpInt64(Model):
    """the result of a numpy reduction over integers: a FIXED-WIDTH integer (products with large strides wrap around silently)"""
    kinds = ("integer", "number", "generic")

    def __init__(self, v):
        self.v = v

    def __eq__(self, o):
        return False          # never the unbounded python int the key arithmetic needs

    def __ne__(self, o):
        return True

    __hash__ = None

    def __int__(self):
        return int(self.v)        # int(np.int64(...)) IS an unbounded python int again

    __index__ = __int__

    def __repr__(self):
        return "np.int64(%d)" % self.v


def _np_dot(a, b):
    av = [int(x) for x in (a.v if isinstance(a, BoolArr) else a.vals if isinstance(a, IntVec) else a)]
    bv = [int(x) for x in (b.v if isinstance(b, BoolArr) else b.vals if isinstance(b, IntVec) else b)]
    if len(av) != len(bv):
        raise Raised("ValueError", None, "shapes not aligned")
    return NpInt64(sum(x * y for x, y in zip(av, bv)))


def np_small():
    return {"numpy.arange": lambda *a, **k: IntVec(range(*a)) if all(isinstance(x, int) for x in a) else (_ for _ in ()).throw(Unsupported("np.arange%r" % (a,))),
            "numpy.dot": _np_dot, "numpy.sum": lambda x, *a, **k: NpInt64(sum(int(v) for v in (x.v if isinstance(x, BoolArr) else x.vals))),
            "numpy.zeros": lambda n, *a, **k: BoolArr(n if not isinstance(n, (list, tuple)) else n[0]), "numpy.zeros_like": lambda x, *a, **k: BoolArr(len(x)),
            "numpy.array": lambda x, *a, **k: Table(x) if isinstance(x, list) and len(x) > 16 else x, "numpy.asarray": lambda x, *a, **k: Table(x) if isinstance(x, list) and len(x) > 16 else x}


def find_table(tree, fi):
    """the state table _hilbert3d actually INDEXES with (digit, slot, state): obtained by interpreting the function once (wherever the
    table is built: in the function, in a helper, at module level) with a recording table model -> the Table, or None"""
    used = []

    class RecTable(Table):
        def reshape(self, *shape, order="C"):
            if len(shape) == 1 and isinstance(shape[0], (tuple, list)):
                shape = tuple(shape[0])
            return RecTable(self.vals, tuple(shape), order)

        def __getitem__(self, idx):
            if isinstance(idx, tuple) and len(idx) == 3 and self not in used:
                used.append(self)
            return Table.__getitem__(self, idx)
    ext = np_small()
    mk = lambda x, *a, **k: RecTable(x) if isinstance(x, list) and len(x) > 16 else x
    ext["numpy.array"] = ext["numpy.asarray"] = mk
    try:
        ModelEval(tree, fi, {}, {"ext": ext}).invoke(fi, [1, 0, 1, 1], {}, None)
    except (Raised, ProgramRaised):
        pass
    tabs = [t for t in used if t.shape is not None and len(t.vals) == 192]
    return tabs[0] if len(tabs) == 1 else None


def automaton_key(T, x, y, z, L):
    c, key = 0, 0
    for i in range(L - 1, -1, -1):
        sd = ((x >> i) & 1) * 4 + ((y >> i) & 1) * 2 + ((z >> i) & 1)
        key = key * 8 + T(sd, 1, c)
        c = T(sd, 0, c)
    return key


def check_hilbert3d_fold(run, tree, T):
    """the function computes, for every cell of the 2^L grid (L = 1, 2), the key of the checker's automaton on the same table:
    x is the most significant bit of each digit, slot 0 is the next state, slot 1 the output digit, most significant digit first"""
    fi = tree.func(HIL + "::_hilbert3d")
    run.analysed(fi)
    hooks = {"ext": np_small()}
    for L in (1, 2):
        construct = "%s::_hilbert3d::cells[bit_length=%d]" % (HIL, L)
        try:
            bad = None
            n = 2 ** L
            for x, y, z in itertools.product(range(n), repeat=3):
                try:
                    got = ModelEval(tree, fi, {}, hooks).invoke(fi, [x, y, z, L], {}, None)
                except (Raised, ProgramRaised) as e:
                    bad = "cell (%d,%d,%d): raises %s" % (x, y, z, e)
                    break
                want = automaton_key(T, x, y, z, L)
                if isinstance(got, NpInt64):
                    bad = "cell (%d,%d,%d) -> %r: a fixed-width integer (required an unbounded python int: the key is multiplied by (2**(levelmax+1)/maxdom)**3, beyond 64 bits for levelmax >= 21)" % (x, y, z, got)
                    break
                if got != want or isinstance(got, bool):
                    bad = "cell (%d,%d,%d) -> key %r, the automaton gives %d" % (x, y, z, got, want)
                    break
            run.ob(construct, bad is None, fi.where(), bad or "all %d cells receive the key of the automaton (x = high bit, digit slot 1, state slot 0, most significant digit first)" % n ** 3,
                   "x and z swapped in the key (or state and digit slots): the curve is mirrored and cells fall in other CPUs' key intervals")
        except ERR as e:
            run.unresolved(construct, fi.where(), "cannot fold: %s" % e)


# =============================================================================== _get_cpu_list
def run_get_cpu_list(tree, box, lmax, levelmax, bound_key, ndim, hkey, ncpu=None):
    fi = tree.func(HIL + "::_get_cpu_list")
    calls = []

    def h3d(x, y, z, bit_length):
        calls.append((x, y, z, bit_length))
        return hkey(x, y, z, bit_length)
    hooks = {"ext": np_small(), "pkgfunc": {HIL + "::_read_bound_key": lambda infofile=None, ncpu=None: list(bound_key), HIL + "::_hilbert3d": h3d}}
    kw = dict(bounding_box=box, lmax=lmax, levelmax=levelmax, infofile="INFO", ncpu=ncpu if ncpu is not None else len(bound_key) - 1, ndim=ndim)
    a = fi.node.args
    names = {x.arg for x in a.args + a.kwonlyargs}
    kw = {k: v for k, v in kw.items() if k in names}
    out = ModelEval(tree, fi, {}, hooks).invoke(fi, [], kw, None)
    return out, calls


def check_get_cpu_list_fold(run, tree):
    fi = tree.func(HIL + "::_get_cpu_list")
    run.analysed(fi)
    # ---- (1) order types of ONE cube's key range [h*dkey, (h+1)*dkey) against 3 cpu key intervals [b0,b1) [b1,b2) [b2,b3)
    # box covering the whole domain -> bit_length = 0, one cube with key 0, dkey = (2**(levelmax+1))**ndim
    levelmax, ndim = 1, 1
    dkey = (2 ** (levelmax + 1)) ** ndim      # 4: cube keys [0, 4)
    construct = HIL + "::_get_cpu_list::interval-order-types"
    try:
        bad = None
        n_cases = 0
        full = {"xmin": 0, "xmax": 1, "ymin": 0, "ymax": 1, "zmin": 0, "zmax": 1}
        grid = [-2, 0, 1, 2, 4, 6]      # below, at lower end, inside, inside, at upper end, above
        for b in itertools.product(grid, repeat=4):
            if not (b[0] < b[1] < b[2] < b[3]) or b[0] > 0 or b[3] < dkey:
                continue                    # the cpu intervals cover the key range of the domain
            n_cases += 1
            try:
                got, _ = run_get_cpu_list(tree, dict(full), 1, levelmax, list(b), ndim, lambda *a: 0)
            except (Raised, ProgramRaised) as e:
                bad = "bound keys %s: raises %s" % (list(b), e)
                break
            want = [k + 1 for k in range(3) if b[k] < dkey and b[k + 1] > 0]
            if sorted(got) != want or len(set(got)) != len(got):
                bad = "cpu key intervals %s, cube keys [0, %d): returns %s (required %s: every cpu whose interval meets the cube's)" % (list(b), dkey, got, want)
                break
        run.ob(construct, bad is None, fi.where(), bad or "%d order types of cube range vs cpu intervals (ends below / at / inside / at / above): exactly the cpus whose interval meets the cube's" % n_cases,
               "a cube whose key range starts exactly at a CPU boundary (or ends at one) selects the wrong CPU: the file holding the cells is dropped")
    except ERR as e:
        run.unresolved(construct, fi.where(), "cannot fold: %s" % e)
    # ---- (2) cube level, cube indices, the 8-corner product, key stride: boxes of every size class at levelmax 3
    construct = HIL + "::_get_cpu_list::cubes-and-stride"
    try:
        problems = []
        levelmax, ndim = 3, 3
        for lmax in (3, 2):
            for (lo, size) in ((0.30, 0.05), (0.55, 0.2), (0.1, 0.3), (0.0, 0.6), (0.7, 0.124)):
                box = {"xmin": lo, "xmax": lo + size, "ymin": lo / 2, "ymax": lo / 2 + size / 2, "zmin": lo / 3, "zmax": lo / 3 + size / 4}
                dmax = size
                lmin = next((l for l in range(1, lmax + 1) if 0.5 ** l < dmax), lmax)
                bl = lmin - 1
                maxdom = 2 ** bl
                want_stride = (2 ** (levelmax + 1) // maxdom) ** ndim
                seen = {}

                def hkey(x, y, z, b, seen=seen):
                    seen[(x, y, z)] = len(seen)
                    return seen[(x, y, z)]
                nkeys = (2 ** (levelmax + 1)) ** ndim
                # one cpu per cube-sized key block: the cpu number then identifies the cube that was searched
                ncube = max(1, 8 ** bl)
                try:
                    got, calls = run_get_cpu_list(tree, box, lmax, levelmax, [k * want_stride for k in range(nkeys // want_stride + 1)], ndim, hkey)
                except (Raised, ProgramRaised) as e:
                    problems.append("box of size %.3g (lmax=%d): raises %s" % (size, lmax, e))
                    continue
                if bl == 0:
                    if calls:
                        problems.append("box of size %.3g: Hilbert keys requested at level 0" % size)
                    if got != [1]:
                        problems.append("box of size %.3g larger than half the domain: %s (required the single level-0 cube -> cpu 1 of the stub)" % (size, got))
                    continue
                i0, j0, k0 = int(box["xmin"] * maxdom), int(box["ymin"] * maxdom), int(box["zmin"] * maxdom)
                want_cells = {(i, j, k) for i in (i0, i0 + 1) for j in (j0, j0 + 1) for k in (k0, k0 + 1)}
                if {c[:3] for c in calls} != want_cells or any(c[3] != bl for c in calls):
                    problems.append("box at %.2f of size %.3g (lmax=%d): cubes searched %s at bit length %s (required the 8 cubes %s at bit length %d)" % (
                        lo, size, lmax, sorted({c[:3] for c in calls}), sorted({c[3] for c in calls}), sorted(want_cells), bl))
                    continue
                # with the stub, cube number q owns keys [q*stride, (q+1)*stride) = cpu q+1
                want_cpus = sorted({seen[c] + 1 for c in want_cells})
                if sorted(got) != want_cpus:
                    problems.append("box at %.2f of size %.3g (lmax=%d, levelmax=%d): cpus %s (required %s: cube keys are on the scale of the bound keys, "
                                    "i.e. stride (2**(levelmax+1)/2**bit_length)**ndim = %d)" % (lo, size, lmax, levelmax, sorted(got), want_cpus, want_stride))
        run.ob(construct, not problems, fi.where(), "; ".join(problems[:2]) or
               "cube level from the box size, the 8 neighbouring cubes {i,i+1}x{j,j+1}x{k,k+1}, cube key range on the scale of the info file's bound keys (also with a level cap)",
               "a selection box straddling a cube boundary on two axes: one neighbouring cube is never searched; with a level cap the pre-selection collapses to the first file")
    except ERR as e:
        run.unresolved(construct, fi.where(), "cannot fold: %s" % e)


# =============================================================================== hilbert_cpu_list
class Centres(Model):
    """Array of finest-level cell centres c_k = (k + 1/2) * box / ncells along one axis"""
    kinds = ("Array", "Base")

    def __init__(self, lo, hi, n, unit):
        self.lo, self.hi, self.n, self.unit = lo, hi, n, unit

    def __getitem__(self, k):
        step = (self.hi - self.lo) / (self.n - 1)
        v = self.lo + step * k
        return Len(v, self.unit) if self.unit is not None else v        # no unit: the raw ndarray, its elements are numbers

    def __mul__(self, o):
        k = Sc.lift(o)
        if k is None or self.unit is not None:
            raise Unsupported("centres * %r" % (o,))
        return Centres(self.lo * k, self.hi * k, self.n, None)

    __rmul__ = __mul__

    def __truediv__(self, o):
        k = Sc.lift(o)
        if k is None or self.unit is not None:
            raise Unsupported("centres / %r" % (o,))
        return Centres(self.lo / k, self.hi / k, self.n, None)


class Len(Model):
    kinds = ("Array", "Base")

    def __init__(self, v, unit):
        self.v, self.unit = v, unit
        self._array = v
        self.values = v

    def __sub__(self, o):
        if isinstance(o, Len) and o.unit == self.unit:
            return Len(self.v - o.v, self.unit)
        raise Unsupported("length - %r" % (o,))

    def __add__(self, o):
        if isinstance(o, Len) and o.unit == self.unit:
            return Len(self.v + o.v, self.unit)
        raise Unsupported("length + %r" % (o,))


class Scaling(Model):
    """units['x']: code length -> physical length"""
    kinds = ("Quantity",)
    _wins_over_sc = True

    def __init__(self):
        self.units = LenUnit()
        self.magnitude = Sc.sym("scale")

    def __rmul__(self, k):
        return Qty(Sc.lift(k) * Sc.sym("scale") if Sc.lift(k) is not None else None)

    __mul__ = __rmul__


class Qty(Model):
    def __init__(self, m):
        self.magnitude = m


class LenUnit(Model):
    kinds = ("Unit",)
    _wins_over_sc = True

    def __rmul__(self, k):
        return Len(Sc.lift(k) if Sc.lift(k) is not None else k, self)

    __mul__ = __rmul__

    def __eq__(self, o):
        return isinstance(o, LenUnit)

    def __hash__(self):
        return 1


class Mask(Model):
    def __init__(self, first, last):
        self.first, self.last = first, last
        self.values = self


class Inds(Model):
    def __init__(self, m):
        self.m = m

    def ravel(self):
        return self

    flatten = ravel

    def min(self):
        return self.m.first

    def max(self):
        return self.m.last

    def __getitem__(self, i):
        if i == 0:
            return self.m.first
        if i == -1:
            return self.m.last
        raise Unsupported("index %r of the selected centres" % (i,))


def check_hilbert_cpu_list_fold(run, tree, levelmaxes=(3, 18, 19, 24)):
    fi = tree.func(HIL + "::hilbert_cpu_list")
    run.analysed(fi)
    rec = []

    def stub(**kw):
        rec.append(kw)
        return ["CPUS"]

    def arr(values=None, unit=None, name=""):
        if isinstance(values, Centres):
            values.unit = unit
            return values
        raise Unsupported("Array(%r)" % (values,))
    hooks = {"ext": {"numpy.linspace": lambda a, b, n, *r, **k: Centres(Sc.lift(a), Sc.lift(b), n, None),
                     "numpy.argwhere": lambda m: Inds(m) if isinstance(m, Mask) else (_ for _ in ()).throw(Unsupported("argwhere(%r)" % (m,))),
                     "numpy.where": lambda m: (Inds(m),), "numpy.nonzero": lambda m: (Inds(m),), "numpy.flatnonzero": lambda m: Inds(m)},
             "class": {"core/array.py::Array": arr}, "pkgfunc": {HIL + "::_get_cpu_list": stub}}
    meta0 = {"ordering type": "hilbert", "boxlen": 2.0, "levelmax": 3, "lmax": 2, "ncpu": 5, "ndim": 3}
    A, B = {c: Sc.sym("first_" + c) for c in "xyz"}, {c: Sc.sym("last_" + c) for c in "xyz"}
    # deep trees: the predicates may be probed on a coarser grid than the finest cells (a cap on the number of probe points) - the box
    # must then reach the neighbouring, unselected probe centres, because finer cells in between can qualify
    for levelmax, (label, axes) in [(lm, la) for lm in levelmaxes for la in (("predicates on x, y and z", "xyz"), ("predicate on y only", "y"), ("predicates on z and x", "zx"))]:
        meta = dict(meta0, levelmax=levelmax)
        construct = "%s::hilbert_cpu_list[%s]%s" % (HIL, label, "" if levelmax == 3 else "[levelmax %d]" % levelmax)
        try:
            rec.clear()
            seen = {}
            select = {("position_" + c): (lambda cs, c=c: (seen.__setitem__(c, cs), Mask(A[c], B[c]))[1]) for c in axes}
            select["density"] = lambda a: Sym("unrelated")
            try:
                out = ModelEval(tree, fi, {}, hooks).invoke(fi, [], {"meta": meta, "scaling": Scaling(), "select": select, "infofile": "INFO"}, None)
            except (Raised, ProgramRaised) as e:
                run.violated(construct, fi.where(), "raises %s" % e, "a selection with %s" % label)
                continue
            problems = []
            # what the position predicates are evaluated on: the centres of the finest cells across the WHOLE box in physical units,
            # c_k = (k + 1/2) * boxlen * scale / ncells (boxlen = %s in this fold)
            box = Sc.lift(meta["boxlen"]) * Sc.sym("scale")
            ns = {seen[c].n for c in axes if isinstance(seen.get(c), Centres)}
            ncells = ns.pop() if len(ns) == 1 else 2 ** levelmax
            if not (isinstance(ncells, int) and ncells >= 2 and (ncells == 2 ** levelmax or levelmax > 12)):
                problems.append("the predicates are probed on %r points per axis (required the 2**levelmax = %d centres of the finest cells; fewer only for deep trees)" % (ncells, 2 ** levelmax))
                ncells = 2 ** levelmax
            coarse = ncells < 2 ** levelmax
            for c in axes:
                cs = seen.get(c)
                if not isinstance(cs, Centres):
                    problems.append("the predicate on %s is evaluated on %r" % (c, cs))
                elif not (cs.n == ncells and cs.lo == box / (2 * ncells) and cs.hi == box - box / (2 * ncells) and isinstance(cs.unit, LenUnit)):
                    problems.append("the predicate on %s sees centres from %r to %r (%r of them, unit %r); required %r .. %r: the box is boxlen x unit_l wide" % (
                        c, cs.lo, cs.hi, cs.n, cs.unit, box / (2 * ncells), box - box / (2 * ncells)))
            if out != ["CPUS"] or len(rec) != 1:
                problems.append("returns %r after %d box searches" % (out, len(rec)))
            else:
                kw = rec[0]
                bb = kw.get("bounding_box", {})
                for c in "xyz":
                    lo, hi = bb.get(c + "min"), bb.get(c + "max")
                    wl, wh = (A[c] / ncells, (B[c] + 1) / ncells) if c in axes else (Sc.lift(0), Sc.lift(1))
                    if coarse and c in axes:
                        # probe cells larger than the finest cells: from the previous probe centre to the next one (at most two probe cells more)
                        wl, wh = (A[c] - Sc.lift(1) / 2) / ncells, (B[c] + Sc.lift(3) / 2) / ncells

                        def slack(d):
                            try:
                                q = d.r.as_poly()
                            except (ValueError, ZeroDivisionError, AttributeError):
                                return None
                            return float(q.const_value()) * ncells if q.is_const() else None
                        sl_lo = slack(wl - Sc.lift(lo)) if Sc.lift(lo) is not None else None
                        sl_hi = slack(Sc.lift(hi) - wh) if Sc.lift(hi) is not None else None
                        if sl_lo is None or sl_hi is None or not (0 <= sl_lo <= 2 and 0 <= sl_hi <= 2):
                            problems.append("box along %s = [%r, %r] with %d probe points for levelmax %d (required at least [%r, %r]: the probe cells are larger than the finest "
                                            "cells, whose centres between the last selected and the next probe centre can satisfy the predicate)" % (c, lo, hi, ncells, levelmax, wl, wh))
                        continue
                    if not (Sc.lift(lo) is not None and Sc.lift(lo) == wl and Sc.lift(hi) is not None and Sc.lift(hi) == wh):
                        problems.append("box along %s = [%r, %r] (required [%r, %r]: the selected finest cells including their half widths, in box units)" % (c, lo, hi, wl, wh))
                for k_, w in (("lmax", 2), ("levelmax", levelmax), ("ncpu", 5), ("ndim", 3), ("infofile", "INFO")):
                    if k_ in kw and kw[k_] != w:
                        problems.append("_get_cpu_list(%s=%r) (required %r)" % (k_, kw[k_], w))
                if "levelmax" not in kw:
                    problems.append("the resolution of the bound keys (levelmax) is not handed to the box search")
            run.ob(construct, not problems, fi.where(), "; ".join(problems[:3]) or "box = [first centre - half cell, last centre + half cell] / box size per axis with a predicate, [0, 1] otherwise",
                   "the bounding box is shrunk by half a cell (cells at its edge are dropped), min and max swapped or written to another axis, "
                   "or with a level cap the key stride is computed from the wrong level")
        except ERR as e:
            run.unresolved(construct, fi.where(), "cannot fold: %s" % e)
    meta = meta0
    # history: the SAME selection (same predicate objects, same box) asked again after the level cap changed: the box search is made again
    # with the new cap (a remembered CPU list keyed on file and box alone would hand out the list of the other cap)
    construct = "%s::hilbert_cpu_list[same selection, another level cap]" % HIL
    try:
        select = {("position_" + c): (lambda cs, c=c: Mask(A[c], B[c])) for c in "xyz"}
        outs = []
        for lmax in (2, 3, 1):
            rec.clear()
            stub_ret = ["CPUS for lmax %d" % lmax]
            hooks["pkgfunc"][HIL + "::_get_cpu_list"] = lambda _r=stub_ret, **kw: (rec.append(kw), _r)[1]
            out = ModelEval(tree, fi, {}, hooks).invoke(fi, [], {"meta": dict(meta, lmax=lmax), "scaling": Scaling(), "select": select, "infofile": "INFO"}, None)
            outs.append((lmax, out, [kw.get("lmax") for kw in rec]))
        hooks["pkgfunc"][HIL + "::_get_cpu_list"] = stub
        bad = [(l, o, r) for l, o, r in outs if o != ["CPUS for lmax %d" % l] or r != [l]]
        run.ob(construct, not bad, fi.where(), "; ".join("with lmax=%d: returns %r after box searches with lmax %s" % b for b in bad[:2]) or
               "three calls with caps 2, 3, 1: each searches the box with its own cap and returns that result",
               "a level-limited load after a deeper load of the same region reads the CPU files selected for the other depth (cells of the coarse level are missing)")
    except (Raised, ProgramRaised) as e:
        run.violated(construct, fi.where(), "raises %s" % e, "repeated selection")
    except ERR as e:
        run.unresolved(construct, fi.where(), "cannot fold: %s" % e)
    # early exits: all files (None)
    for label, m2, sel in (("another domain decomposition", dict(meta, **{"ordering type": "planar"}), {"position_x": lambda cs: Mask(A["x"], B["x"])}),
                           ("selection that is not a dict", meta, ["mesh"]), ("no positional predicate", meta, {"density": lambda a: Sym("u")}), ("selection None", meta, None)):
        construct = "%s::hilbert_cpu_list[%s]" % (HIL, label)
        try:
            rec.clear()
            try:
                out = ModelEval(tree, fi, {}, hooks).invoke(fi, [], {"meta": m2, "scaling": Scaling(), "select": sel, "infofile": "INFO"}, None)
            except (Raised, ProgramRaised) as e:
                run.violated(construct, fi.where(), "raises %s" % e, label)
                continue
            run.ob(construct, out is None and not rec, fi.where(), "returns %r (required None: every file is read)" % (out,),
                   "files are dropped although no position predicate was given / another domain decomposition is pre-selected with Hilbert keys", nontrivial=False)
        except ERR as e:
            run.unresolved(construct, fi.where(), "cannot fold: %s" % e)
