"""C03 — a map pixel shows the value of the loaded cell containing its sample point."""
from __future__ import annotations

from . import map_rules as mr

EXPLANATION = '(R1-R3) the numba kernel evaluate_on_grid evaluated symbolically (package helpers inlined): the single store into the output is guarded by full closed containment per axis, the footprint index ranges are conservative and paired with axes/shape, the loop nest above the pixel loops visits every cell exactly once for every thread count (loop BOUNDS evaluated for small sizes), writes inside prange classified; (R4) pre-selection masks of map(): dependence (D4) and large-cell limits (D5) in zero-thickness mode; (R6/R7) map() interpreted over token layers with symbolic numpy values (sa/symnp.py): kernel slots per layer (scalar | u, v, colour), one cell selection for values/coordinates/sizes, each rendered layer made of its own slots and masked by the NaNs of the map, image axes paired with (u,v,n), one length scale, window and resolution per axis, pixel-centre grids; (R9) completion of a bare normal and every string direction (shared with C18); (R10) Layer copies/component views keep options (shared with C19). The same Layer objects handed to two map() calls with different call-level options render what fresh Layers render (R6); the pre-selection reach is at least half the cell diagonal (R4). (R11) the origin/window conversion is exact and a basis completed from a bare normal is orthonormal for every zero-pattern family, all-negative normals included (shared); the map fold also covers a single depth sample and a scatter layer between image layers. The output buffer of the kernel must be floating whatever the layers hold; the guard of the shared store is read from the symbolic evaluation (guard-clause `continue` understood); Array.norm is the identity on scalar layers (R11). Value tests inside the kernel (np.isnan of a cell value) become guard terms that the containment rule rejects; undecided tests in map() (mask.all()) are explored both ways.'
NOT_DECIDED = "floating-point rounding at cell faces; numba's code generation; what matplotlib draws"
TRUSTED = ('CPython ast', 'numba prange semantics', 'the interpreter sa/models.py and sa/symnp.py')
TECHNIQUE = 'static analysis: symbolic evaluation of the kernel, parallel-loop write classification, dependence and limit analyses, abstract interpretation of map() over symbolic numpy values'

from . import map_folds as mf


def r1(run, tree):
    run.rule("C03.R1", "kernel writes only under full closed containment", "D1 symbolic kernel evaluation", "", floor=6)
    mr.check_kernel_containment(run, tree)


def r2(run, tree):
    run.rule("C03.R2", "schedule independence of the kernel", "parallel-loop write classification", "numba", floor=1)
    mr.check_kernel_schedule(run, tree)


def r3(run, tree):
    run.rule("C03.R3", "footprint is conservative; axes, extents and output shape paired", "D1", "", floor=4)
    mr.check_kernel_footprint(run, tree)


def r4_r5(run, tree):
    run.rule("C03.R4", "large-cell limit and dependences of every pre-selection mask (zero-thickness mode; thick mode is C11)",
             "D5 limit + D4 dependence", "", floor=4)
    mr.check_preselection(run, tree, [mr.MODES[0]])
    mf.check_mask_reach(run, tree)


def r6(run, tree):
    run.rule("C03.R6", "NaN means 'no cell' end to end; slot bookkeeping: every rendered layer is made of its own kernel slots",
             "D7 fold of map() over token layers with symbolic numpy values (first axis of stacked arrays tracked element-wise)", "", floor=6)
    mf.check_map(run, tree, aspects=("slots", "rendered"))
    mf.check_map_history(run, tree)


def r7(run, tree):
    run.rule("C03.R7", "one length scale; axis pairing of the kernel arguments; pixel-centre grid; pixel positions", "D7 fold of map() + D1 on scalars", "", floor=3)
    mf.check_map(run, tree, aspects=("geometry",))


def r9(run, tree):
    from .c18 import r3_perpendicular, r4_handedness
    run.rule("C03.R9", "u and v span the plane normal to the requested direction (completion of a bare normal)",
             "D1 rational identities (shared with C18.R3/R4)", "", floor=4)
    cur = run.cur_rule
    from . import direction_folds as df
    for fn in (r3_perpendicular, r4_handedness):
        fn(run, tree)
    df.check_string_forms(run, tree)
        # re-label the obligations recorded under the C18 rule ids
    for o in run.obs:
        if o.rule.startswith("C18."):
            o.rule = "C03.R9"
    for rid in [r for r in run.rules if r.startswith("C18.")]:
        run.rules["C03.R9"]["instances"] += run.rules[rid]["instances"]
        del run.rules[rid]
    run.cur_rule = cur


def r_layer_views(run, tree):
    from . import layer_folds as lf
    run.rule("C03.R10", "component views and copies of a Layer keep its operation and options (shared with C19): map(layer.x) is reduced with the layer's operation",
             "D7 fold of the Layer class", "", floor=4)
    lf.check_layer_copies(run, tree)


def r11_shared(run, tree):
    run.rule("C03.R11", "what map() builds its geometry from is exact (shared): the origin / window are brought to the unit of the positions by Array.to without a cast back "
             "(an integer origin in mm on a cm mesh is not truncated); a basis completed from a bare normal is orthonormal for every zero-pattern family of the normal", "D7 folds of Array.to (shared with C02/C08) and of VectorBasis (shared with C18.R2)", "", floor=10)
    from . import array_folds as af
    from . import direction_folds as df
    af.check_to_fold(run, tree)
    df.check_vector_forms(run, tree)
    from . import quantity_stack as qs
    qs.check_array_norm_identity(run, tree)


def r_wrappers_pure(run, tree):
    from . import c19
    run.rule("C03.R12", "drawing the result does not change it: no drawing wrapper of plot/wrappers.py stores into, masks in place or otherwise mutates the arrays it is handed "
             "(they are the arrays of the returned Plot.layers)", "D3 provenance from every wrapper with (x, y, z) parameters", "", floor=6)
    c19.check_wrappers_pure(run, tree)


RULES = [r_wrappers_pure, r_layer_views, r1, r2, r3, r4_r5, r6, r7, r9, r11_shared]


def t_map_space(run, tree):
    run.rule("C03.T1", "thorough: map() folded over 60 scenarios (thin / thick x every ordered pair of the layer operations mean, sum, nansum, max, min x the forms of the resolution dict): "
             "slots, rendered layers, geometry and inputs as in the quick tier", "D7 fold of plot/map.py::map with token layers and symbolic numpy values", "", floor=100)
    mf.check_map(run, tree, scenarios=mf.thorough_scenarios())


THOROUGH_RULES = [t_map_space]
