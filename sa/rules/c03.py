"""C03 — a map pixel shows the value of the loaded cell containing its sample point."""
from __future__ import annotations

from . import map_rules as mr

EXPLANATION = (
    "The equality pixel = value of the containing cell is a geometric statement over reals and is NOT decided. Decided are "
    "necessary conditions: (R1) the kernel is evaluated symbolically: its single store into the output happens only under a "
    "conjunction of closed containment tests |pixel_a - cell_a| <= half_size, one per available axis, for 1-, 2- and 3-D; "
    "(R2) parallel-loop write classification: no read-modify-write on shared data inside prange, the plain store is guarded; "
    "(R3) the pixel index window of a cell is (p -/+ c*half_size*sqrt(ndim) - lower_edge)/spacing with c >= 1, clamped to "
    "[0, n_axis], the loops/axes/extents are paired and the output is NaN-initialised with shape (layers, nz, ny, nx); "
    "(R4) limit analysis: every mask that narrows the cell index set in map() is not FALSE when the cell size tends to "
    "infinity (such a cell contains the whole window); (R5) dependence analysis: each such mask depends on the cell size, "
    "the window filter also on dx, dy (and dz); (R6) NaN -> mask, slot bookkeeping for vector layers; (R7) one length scale "
    "for all kernel arguments, axis pairing x<->u, y<->v, z<->n of projections/edges/spacings/pixel positions, half cell size "
    "passed; (R8) pixel-centre grid formulas as polynomial identities; (R9) for a bare normal the completed in-plane "
    "vector is orthogonal to it and cannot vanish, and u x (n x u) is parallel to +n.")
NOT_DECIDED = ("the equality of each pixel with the containing cell's value; soundness/tightness of the numeric coefficients "
               "(0.6, half diagonal) beyond the limit and dependence conditions; float behaviour on cell faces; vector "
               "projection values; matplotlib output")
TRUSTED = ("CPython ast", "numba prange semantics", "osyris operator semantics (Vector - Array broadcasts) as modelled in sa/limits.py")
TECHNIQUE = ("static analysis: symbolic (polynomial) evaluation of the numba kernel, parallel-loop write classification, "
             "asymptotic-limit and dependence analyses of the pre-selection masks, formula identities")

from . import map_folds as mf


def r1(run, tree):
    run.rule("C03.R1", "kernel writes only under full closed containment", "D1 symbolic kernel evaluation", "", floor=6)
    mr.check_kernel_containment(run, tree)


def r2(run, tree):
    run.rule("C03.R2", "schedule independence of the kernel", "parallel-loop write classification", "numba", floor=1)
    mr.check_kernel_schedule(run, tree)


def r3(run, tree):
    run.rule("C03.R3", "footprint is conservative; axes, extents and output shape paired", "D1", "", floor=4)
    mr.check_kernel_footprint(run, tree)


def r4_r5(run, tree):
    run.rule("C03.R4", "large-cell limit and dependences of every pre-selection mask (zero-thickness mode; thick mode is C11)",
             "D5 limit + D4 dependence", "", floor=4)
    mr.check_preselection(run, tree, [mr.MODES[0]])


def r6(run, tree):
    run.rule("C03.R6", "NaN means 'no cell' end to end; slot bookkeeping: every rendered layer is made of its own kernel slots",
             "D7 fold of map() over token layers with symbolic numpy values (first axis of stacked arrays tracked element-wise)", "", floor=6)
    mf.check_map(run, tree, aspects=("slots", "rendered"))


def r7(run, tree):
    run.rule("C03.R7", "one length scale; axis pairing of the kernel arguments; pixel-centre grid; pixel positions", "D7 fold of map() + D1 on scalars", "", floor=3)
    mf.check_map(run, tree, aspects=("geometry",))


def r9(run, tree):
    from .c18 import r3_perpendicular, r4_handedness
    run.rule("C03.R9", "u and v span the plane normal to the requested direction (completion of a bare normal)",
             "D1 rational identities (shared with C18.R3/R4)", "", floor=4)
    cur = run.cur_rule
    from . import direction_folds as df
    for fn in (r3_perpendicular, r4_handedness):
        fn(run, tree)
    df.check_string_forms(run, tree)
        # re-label the obligations recorded under the C18 rule ids
    for o in run.obs:
        if o.rule.startswith("C18."):
            o.rule = "C03.R9"
    for rid in [r for r in run.rules if r.startswith("C18.")]:
        run.rules["C03.R9"]["instances"] += run.rules[rid]["instances"]
        del run.rules[rid]
    run.cur_rule = cur


def r_layer_views(run, tree):
    from . import layer_folds as lf
    run.rule("C03.R10", "component views and copies of a Layer keep its operation and options (shared with C19): map(layer.x) is reduced with the layer's operation",
             "D7 fold of the Layer class", "", floor=4)
    lf.check_layer_copies(run, tree)


RULES = [r_layer_views, r1, r2, r3, r4_r5, r6, r7, r9]
