"""Analyses of core/array.py, core/base.py shared by C02, C07, C10, C17 (operator table, _binary_op paths,
_wrap_numpy structure, dtype gate)."""
from __future__ import annotations

import ast
from fractions import Fraction

from ..flow import enumerate_paths, guards_of
from ..peval import Evaluator, Unsupported
from ..poly import Poly, Rat, S, Fn
from ..source import AnalysisError, FuncInfo, norm, const_value, walk_no_nested
from ..specs import npmodel, operators as optab
from .common import (attr_chain, bind_call, calls_in, is_name, params, returns_of, root_name, single_return,
                     stores_in, flatten_targets, body_wo_doc)

ARRAY = "core/array.py::Array"
BINOP = "core/array.py::_binary_op"


# =============================================================================== operator table
def dunder_semantics(tree, fi):
    """Semantics of an Array dunder that delegates to _binary_op:
    {'ufunc': 'add', 'strict': bool, 'out_self': bool, 'lhs_self': bool, 'rhs_param': bool} or None."""
    ret = single_return(fi)
    if ret is None or not isinstance(ret, ast.Call):
        return None
    callee = tree.resolve_call(fi, ret)
    if not isinstance(callee, FuncInfo) or callee.qual != BINOP:
        return None
    bound, extra, star = bind_call(callee.node, ret)
    if star:
        return None
    pn = params(callee)  # op, lhs, rhs, strict
    if len(pn) < 3:
        raise AnalysisError("_binary_op has fewer than 3 positional parameters")
    op_e, lhs_e, rhs_e = bound.get(pn[0]), bound.get(pn[1]), bound.get(pn[2])
    dotted = tree.dotted(fi.module, op_e) if op_e is not None else None
    ufunc = dotted[len("numpy."):] if dotted and dotted.startswith("numpy.") else None
    strict_e = bound.get("strict")
    strict = const_value(strict_e) if strict_e is not None else None
    me = params(fi)
    return {
        "ufunc": ufunc,
        "strict": strict,
        "out_self": "out" in extra and is_name(extra["out"], me[0]),
        "has_out": "out" in extra,
        "lhs_self": is_name(lhs_e, me[0]),
        "rhs_param": len(me) > 1 and is_name(rhs_e, me[1]),
        "extra": sorted(k for k in extra if k != "out"),
    }


def check_operator_table(run, tree, table, cls_qual=ARRAY):
    """Every dunder in `table` resolves to _binary_op(<ufunc>, self, other[, strict][, out=self]) per S4."""
    ci = tree.cls(cls_qual)
    for dunder, (names, strict, inplace) in table.items():
        fi = tree.method(ci, dunder)
        construct = "%s.%s" % (cls_qual, dunder)
        if fi is None or fi.cls.qual != ci.qual:
            run.violated(construct, ci.module.rel, "operator %s is not defined on Array" % dunder,
                         "any expression using this operator falls back to object/numpy semantics without unit handling")
            continue
        run.analysed(fi)
        sem = dunder_semantics(tree, fi)
        if sem is None:
            run.unresolved(construct, fi.where(), "body is not a single `return _binary_op(...)`: %s" % (
                norm(fi.node.body[-1])[:120]))
            continue
        problems = []
        if sem["ufunc"] not in names:
            problems.append("ufunc is %s, table requires %s" % (sem["ufunc"], "/".join(names)))
        if sem["strict"] is not strict:
            problems.append("strict=%r, table requires %r (%s)" % (
                sem["strict"], strict, "incompatible units must raise" if strict else
                "incompatible units must multiply/divide into a derived unit"))
        if not sem["lhs_self"] or not sem["rhs_param"]:
            problems.append("operands are not (self, other) in this order")
        if inplace and not sem["out_self"]:
            problems.append("in-place operator does not pass out=self")
        if not inplace and sem["has_out"]:
            problems.append("out-of-place operator passes out=")
        run.ob(construct, not problems, fi.where(), "; ".join(problems) or "%s strict=%s%s" % (
            sem["ufunc"], sem["strict"], " out=self" if sem["out_self"] else ""),
               "a %s b with %s" % (dunder, "operands in compatible but different units" if strict else "any operands"))


# ----------------------------------------------------------------- composite operators in the S/O algebra
class Q:
    """Quantity-algebra value: rational monomial in S (self) and O (other) + 'guaranteed float' flag."""

    def __init__(self, r, is_float=False, powsym=None):
        self.r, self.is_float, self.powsym = r, is_float, powsym

    def __repr__(self):
        return "Q(%r%s)" % (self.r, ",float" if self.is_float else "")


class CompositeEval(Evaluator):
    """Evaluates the return expression of __rmul__/__rtruediv__/__pow__/__neg__ in the quantity algebra."""

    def __init__(self, tree, fi):
        me = params(fi)
        env = {me[0]: Q(Rat(S("S")))}
        if len(me) > 1:
            env[me[1]] = Q(Rat(S("O")))
        super().__init__(env)
        self.tree, self.fi = tree, fi
        self.problems = []

    def binop(self, node, op, a, b):
        a = a if isinstance(a, Q) else Q(Rat(Poly.const(a)))
        b = b if isinstance(b, Q) else Q(Rat(Poly.const(b)))
        if isinstance(op, ast.Mult):
            return Q(a.r * b.r, a.is_float or b.is_float)
        if isinstance(op, ast.Div):
            return Q(a.r / b.r, True)
        if isinstance(op, ast.Pow):
            if b.r == Rat(S("O")):
                return Q(a.r, a.is_float, powsym=("pow", a.r, "O"))
            return Q(a.r ** b.r.as_poly(), a.is_float)
        if isinstance(op, ast.Add):
            return Q(a.r + b.r, a.is_float and b.is_float)
        if isinstance(op, ast.Sub):
            return Q(a.r - b.r, a.is_float and b.is_float)
        raise Unsupported("operator")

    def ev_UnaryOp(self, node):
        v = self.ev(node.operand)
        if isinstance(node.op, ast.USub) and isinstance(v, Q):
            return Q(-v.r, v.is_float)
        return super().ev_UnaryOp(node)

    def ev_Attribute(self, node):
        d = self.tree.dotted(self.fi.module, node)
        if d and d.startswith("numpy."):
            return ("np", d[6:])
        return super().ev_Attribute(node)

    def call(self, node, func, args, kwargs):
        if isinstance(func, tuple) and func[0] == "np":
            name = func[1]
            a = [x if isinstance(x, Q) else Q(Rat(Poly.const(x))) for x in args]
            if name == "reciprocal" and len(a) == 1:
                if not a[0].is_float:
                    self.problems.append(
                        "np.reciprocal is applied to a value that may have an integer dtype (integer reciprocal "
                        "truncates to 0); it must be applied to the result of a true division")
                return Q(1 / a[0].r, True)
            if name == "negative" and len(a) == 1:
                return Q(-a[0].r, a[0].is_float)
            if name == "multiply" and len(a) == 2:
                return Q(a[0].r * a[1].r, a[0].is_float or a[1].is_float)
            if name in ("divide", "true_divide") and len(a) == 2:
                return Q(a[0].r / a[1].r, True)
            if name == "power" and len(a) == 2:
                if a[1].r == Rat(S("O")):
                    return Q(a[0].r, a[0].is_float, powsym=("pow", a[0].r, "O"))
                return Q(a[0].r ** a[1].r.as_poly(), a[0].is_float)
            if name == "logical_not" and len(a) == 1:
                return Q(a[0].r, powsym=("not", a[0].r))
        raise Unsupported("call %s in composite operator" % norm(node.func))


COMPOSITES = {
    "__rmul__": ("k * a", lambda q: q.powsym is None and q.r == Rat(S("S") * S("O"))),
    "__rtruediv__": ("k / a", lambda q: q.powsym is None and q.r == Rat(S("O")) / Rat(S("S"))),
    "__pow__": ("a ** k", lambda q: q.powsym == ("pow", Rat(S("S")), "O")),
    "__neg__": ("-a", lambda q: q.powsym is None and q.r == Rat(-S("S"))),
    "__invert__": ("~a", lambda q: q.powsym == ("not", Rat(S("S")))),
    "__radd__": ("k + v", lambda q: q.powsym is None and q.r == Rat(S("S") + S("O"))),
    "__rsub__": ("k - v", lambda q: q.powsym is None and q.r == Rat(S("O") - S("S"))),
}


def check_composites(run, tree, names, cls_qual=ARRAY):
    ci = tree.cls(cls_qual)
    for dunder in names:
        what, accept = COMPOSITES[dunder]
        construct = "%s.%s" % (cls_qual, dunder)
        fi = tree.method(ci, dunder)
        if fi is None or fi.cls.qual != ci.qual:
            run.violated(construct, ci.module.rel, "%s is not defined" % dunder, "%s raises TypeError or bypasses units" % what)
            continue
        run.analysed(fi)
        ret = single_return(fi)
        if ret is None:
            run.unresolved(construct, fi.where(), "body is not a single return expression")
            continue
        ev = CompositeEval(tree, fi)
        try:
            q = ev.ev(ret)
        except Unsupported as e:
            run.unresolved(construct, fi.where(), "cannot evaluate %s in the quantity algebra: %s" % (norm(ret), e))
            continue
        if not isinstance(q, Q):
            run.violated(construct, fi.where(), "%s evaluates to %r" % (norm(ret), q), what)
            continue
        ok = accept(q) and not ev.problems
        run.ob(construct, ok, fi.where(),
               ("%s = %r" % (norm(ret), q)) + ("; " + "; ".join(ev.problems) if ev.problems else ""),
               "%s for any Array a%s" % (what, " of integer dtype" if ev.problems else ""))


# =============================================================================== _binary_op paths
def analyse_binary_op(run, tree, rule_prefix, want_strict=(True, False)):
    """C02.R2 / C07.R2 / C17.R3: conversion dominates the numpy call; rhs/lhs state never written."""
    fi = tree.func(BINOP)
    run.analysed(fi)
    pn = params(fi)
    if len(pn) < 3:
        raise AnalysisError("_binary_op signature changed: %s" % pn)
    OP, L, R = pn[0], pn[1], pn[2]
    strict_name = "strict"
    allargs = [a.arg for a in fi.node.args.args + fi.node.args.kwonlyargs]
    if strict_name not in allargs:
        run.violated(BINOP + "::strict-parameter", fi.where(), "_binary_op has no `strict` parameter any more",
                     "additive/comparison operators and multiplicative operators need different unit policies")
        return
    # default of strict must be True
    bound, _, _ = bind_call(fi.node, ast.Call(func=ast.Name(id="f"), args=[], keywords=[]))
    run.ob(BINOP + "::strict-default", const_value(bound.get("strict")) is True, fi.where(),
           "default strict=%s" % (norm(bound["strict"]) if "strict" in bound else "?"),
           "a + b with incompatible units (operators rely on the default)")

    def is_conversion(st):
        """rhs = rhs.to(lhs.unit)  (or the symmetric lhs = lhs.to(rhs.unit))"""
        if not (isinstance(st, ast.Assign) and len(st.targets) == 1 and isinstance(st.targets[0], ast.Name)):
            return None
        v = st.value
        if not (isinstance(v, ast.Call) and isinstance(v.func, ast.Attribute) and v.func.attr == "to"
                and len(v.args) == 1 and not v.keywords):
            return None
        tgt = st.targets[0].id
        recv = v.func.value
        arg = v.args[0]
        if not (isinstance(arg, ast.Attribute) and arg.attr == "unit" and isinstance(arg.value, ast.Name)):
            return None
        if is_name(recv, tgt) and tgt == R and arg.value.id == L:
            return "rhs->lhs.unit"
        if is_name(recv, tgt) and tgt == L and arg.value.id == R:
            return "lhs->rhs.unit"
        return None

    def is_op_call(node):
        return isinstance(node, ast.Call) and is_name(node.func, OP)

    paths = enumerate_paths(fi.node.body)
    n_checked = 0
    for strict in want_strict:
        for path in paths:
            # feasibility under the mode
            feasible = True
            for it in path:
                if it[0] == "test" and is_name(it[1], strict_name) and it[2] != strict:
                    feasible = False
                if it[0] == "test" and isinstance(it[1], ast.UnaryOp) and isinstance(it[1].op, ast.Not) and is_name(
                        it[1].operand, strict_name) and it[2] == strict:
                    feasible = False
            if not feasible:
                continue
            converted = None
            raised_in_conversion = False
            swallowed = []
            for idx, it in enumerate(path):
                if it[0] == "stmt":
                    c = is_conversion(it[1])
                    if c:
                        converted = c
                    calls = [n for n in ast.walk(it[1]) if is_op_call(n)]
                    for call in calls:
                        n_checked += 1
                        where = fi.where(call)
                        construct = "%s::op-call[strict=%s]" % (BINOP, strict)
                        args_ok = (len(call.args) >= 2 and is_name(call.args[0], L) and is_name(call.args[1], R))
                        kw_fwd = any(k.arg is None for k in call.keywords)
                        if not args_ok:
                            run.violated(construct + "::operands", where,
                                         "numpy op is called as %s, expected (%s, %s, ...)" % (norm(call), L, R),
                                         "non-commutative operators (a - b, a / b, a < b)")
                        if not kw_fwd:
                            run.violated(construct + "::kwargs", where, "extra keyword arguments (out=) are not forwarded",
                                         "x += y does not update x")
                        if strict:
                            run.ob(construct, converted is not None and not raised_in_conversion, where,
                                   "path reaches the numpy call %s" % ("after " + converted if converted else
                                                                       "WITHOUT converting the operands to a common unit"),
                                   "Array(1,'m') + Array(1,'cm'): raw numbers combined as if both were in the same unit")
                        else:
                            run.ob(construct, converted is not None or raised_in_conversion, where,
                                   "non-strict path: conversion %s" % ("done: " + converted if converted else
                                                                       "failed with a swallowed error" if raised_in_conversion
                                                                       else "NOT attempted"),
                                   "Array(1,'m') * Array(1,'cm') = 1 m*cm instead of 0.01 m**2 (the rest of osyris, e.g. "
                                   "Vector.dot, relies on the conversion)")
                elif it[0] == "raise-in":
                    if is_conversion(it[2]):
                        raised_in_conversion = True
                elif it[0] == "handler":
                    h = it[1]
                    if raised_in_conversion:
                        tnames = []
                        if h.type is None:
                            tnames = ["<bare>"]
                        else:
                            for e in (h.type.elts if isinstance(h.type, ast.Tuple) else [h.type]):
                                r = tree.resolve_expr(fi.module, e)
                                tnames.append(r[1] if isinstance(r, tuple) and r[0] == "ext" else norm(e))
                        swallowed = tnames
                        construct = "%s::conversion-handler[strict=%s]" % (BINOP, strict)
                        only_dim = all(t.endswith("DimensionalityError") for t in tnames)
                        if strict:
                            run.violated(construct, fi.where(h),
                                         "on the strict path a failed unit conversion is caught (%s)" % ", ".join(tnames),
                                         "Array(1,'m') + Array(1,'s') returns a number instead of raising")
                        else:
                            run.ob(construct, only_dim, fi.where(h),
                                   "non-strict conversion failure handler catches %s" % ", ".join(tnames),
                                   "errors other than a dimensionality mismatch are hidden")
    if n_checked == 0:
        run.unresolved(BINOP + "::op-call", fi.where(), "no call of the `op` parameter found on any path")
    # no store through lhs / rhs (operands unchanged when the conversion raises; rhs never written)
    bad = []
    for tgt, st in stores_in(fi.node):
        for t in flatten_targets(tgt):
            if isinstance(t, (ast.Attribute, ast.Subscript)) and root_name(t) in (L, R):
                bad.append((t, st))
    for n in walk_no_nested(fi.node):
        if isinstance(n, ast.Call) and isinstance(n.func, ast.Attribute) and root_name(n.func.value) in (L, R) and \
                n.func.attr in MUTATORS:
            bad.append((n, n))
    for t, st in bad:
        run.violated("%s::operand-store::%s" % (BINOP, norm(t)), fi.where(st),
                     "_binary_op writes into an operand: %s" % norm(st)[:100],
                     "`a + b` raising on incompatible units after having modified a or b; `x += y` modifying y")
    if not bad:
        run.holds(BINOP + "::operands-not-written", fi.where(), "no attribute/subscript store or mutating call on %s/%s" % (L, R))


MUTATORS = {"update", "pop", "append", "extend", "clear", "sort", "setdefault", "insert", "remove", "fill",
            "sortby", "popitem", "resize", "put", "itemset", "setfield", "setflags", "partition", "byteswap",
            "__setitem__", "__delitem__", "__iadd__", "__isub__", "__imul__", "__itruediv__"}


# =============================================================================== _wrap_numpy
class WrapFacts:
    pass


def analyse_wrap_numpy(tree):
    """Structural facts about Array._wrap_numpy derived from its paths."""
    fi = tree.func(ARRAY + "._wrap_numpy")
    mi = fi.module
    pn = params(fi)  # self, func
    if len(pn) < 2 or fi.node.args.vararg is None or fi.node.args.kwarg is None:
        raise AnalysisError("_wrap_numpy signature changed")
    SELF, FUNC = pn[0], pn[1]
    ARGS, KW = fi.node.args.vararg.arg, fi.node.args.kwarg.arg
    f = WrapFacts()
    f.fi, f.SELF, f.FUNC, f.ARGS, f.KW = fi, SELF, FUNC, ARGS, KW
    apply_name = None
    for n in walk_no_nested(fi.node):
        if isinstance(n, ast.Compare) and len(n.ops) == 1 and isinstance(n.ops[0], ast.In):
            l = n.left
            if isinstance(l, ast.Attribute) and l.attr == "__name__" and is_name(l.value, FUNC):
                apply_name = n.comparators[0]
                f.apply_test = n
    f.apply_tuple = None
    if apply_name is not None:
        r = tree.resolve_expr(mi, apply_name) if isinstance(apply_name, (ast.Name, ast.Attribute)) else None
        node = r[2] if isinstance(r, tuple) and r[0] == "value" else apply_name
        if isinstance(node, (ast.Tuple, ast.List, ast.Set)):
            vals = [const_value(e) for e in node.elts]
            if all(isinstance(v, str) for v in vals):
                f.apply_tuple = vals
    # classify every assignment to the unit variable and every path
    f.paths = []
    for path in enumerate_paths(fi.node.body):
        unit_kind, unit_node = "unset", None
        conds = []
        result_call = None
        for it in path:
            if it[0] == "test":
                conds.append((it[1], it[2]))
            elif it[0] == "stmt":
                st = it[1]
                if isinstance(st, ast.Assign) and len(st.targets) == 1 and is_name(st.targets[0], "unit"):
                    unit_kind, unit_node = classify_unit_value(f, st.value), st
                for c in calls_in(st):
                    if is_name(c.func, FUNC) and result_call is None and not _is_units_call(f, c):
                        result_call = c
        f.paths.append({"conds": conds, "unit": unit_kind, "unit_node": unit_node, "exit": path[-1],
                        "result_call": result_call, "path": path})
    return f


def _is_units_call(f, call):
    """func(*self._extract_units(args), ...) — the call that derives the unit."""
    for a in call.args:
        if isinstance(a, ast.Starred) and isinstance(a.value, ast.Call) and isinstance(a.value.func, ast.Attribute) \
                and "unit" in a.value.func.attr:
            return True
    return False


def classify_unit_value(f, v):
    if isinstance(v, ast.Constant) and v.value is None:
        return "none"
    if isinstance(v, ast.Attribute) and v.attr == "unit" and is_name(v.value, f.SELF):
        return "inherit"
    if isinstance(v, ast.Attribute) and v.attr == "units" and isinstance(v.value, ast.Call) and is_name(
            v.value.func, f.FUNC) and _is_units_call(f, v.value):
        return "derived"
    return "other:" + norm(v)[:60]


class DtypeEval(Evaluator):
    """D7: evaluates a dtype predicate for one concrete dtype of the model."""

    def __init__(self, tree, fi, dtype, dtype_exprs):
        super().__init__({})
        self.tree, self.fi, self.dtype, self.dtype_exprs = tree, fi, dtype, dtype_exprs

    def ev(self, node):
        if norm(node) in self.dtype_exprs:
            return self.dtype
        return super().ev(node)

    def ev_Name(self, node):
        if node.id in ("int", "float", "bool", "complex", "object", "str"):
            return npmodel.PyType(node.id)
        r = self.tree.resolve_name(self.fi.module, node.id)
        if isinstance(r, tuple) and r[0] == "ext" and r[1].startswith("numpy."):
            return npmodel.NpType(r[1][6:])
        raise Unsupported("name %s in dtype predicate" % node.id)

    def ev_Attribute(self, node):
        d = self.tree.dotted(self.fi.module, node)
        if d == "numpy.issubdtype":
            return npmodel.issubdtype
        if d and d.startswith("numpy."):
            return npmodel.NpType(d[6:])
        base = self.ev(node.value)
        if isinstance(base, npmodel.DType) and node.attr == "kind":
            return base.kind
        if isinstance(base, npmodel.DType) and node.attr == "name":
            return base.name
        if isinstance(base, npmodel.DType) and node.attr == "type":
            return npmodel.NpType(base.name)
        raise Unsupported("attribute %s in dtype predicate" % node.attr)

    def call(self, node, func, args, kwargs):
        if func is npmodel.issubdtype:
            try:
                return npmodel.issubdtype(*args)
            except ValueError as e:
                raise Unsupported("issubdtype(%s)" % e)
        if isinstance(func, npmodel.NpType) and func.name == "dtype" and len(args) == 1:
            a = args[0]
            if isinstance(a, npmodel.PyType):
                return npmodel.DType(npmodel.PYTYPE_TO_DTYPE[a.name])
            if isinstance(a, npmodel.NpType) and a.name in npmodel.DTYPES:
                return npmodel.DType(a.name)
            if isinstance(a, str) and a in npmodel.DTYPES:
                return npmodel.DType(a)
        raise Unsupported("call %s in dtype predicate" % norm(node.func))


def dtype_gate_table(tree, f):
    """For each model dtype: does a result of that dtype keep a unit (some path assigns a non-None unit)?
    Returns {dtype name: True/False} or raises Unsupported."""
    fi = f.fi
    # expressions denoting the result dtype: <name>.dtype where <name> is assigned from the numpy call
    dtype_exprs = set()
    for n in walk_no_nested(fi.node):
        if isinstance(n, ast.Attribute) and n.attr == "dtype":
            dtype_exprs.add(norm(n))
    table = {}
    for name in npmodel.DTYPES:
        d = npmodel.DType(name)
        keeps = set()
        for p in f.paths:
            if p["exit"][1] == "raise":
                continue
            feasible = True
            for test, outcome in p["conds"]:
                mentions = any(norm(x) in dtype_exprs for x in ast.walk(test))
                if not mentions:
                    continue
                ev = DtypeEval(tree, fi, d, dtype_exprs)
                val = ev.truth(ev.ev(test), test)
                if val != outcome:
                    feasible = False
                    break
            if feasible:
                keeps.add(p["unit"] in ("inherit", "derived") or p["unit"].startswith("other"))
        table[name] = keeps
    return table


def check_dtype_gate(run, tree, want_numeric=True, want_bool=True):
    f = analyse_wrap_numpy(tree)
    run.analysed(f.fi)
    try:
        table = dtype_gate_table(tree, f)
    except Unsupported as e:
        run.unresolved(ARRAY + "._wrap_numpy::dtype-gate", f.fi.where(), "cannot evaluate the dtype predicate: %s" % e)
        return
    run.extra.setdefault("dtype_gate_table", {k: sorted(v) for k, v in table.items()})
    for name, kind in npmodel.DTYPES.items():
        keeps = table[name]
        construct = "%s._wrap_numpy::dtype-gate[%s]" % (ARRAY, name)
        if kind in npmodel.NUMERIC_KINDS and want_numeric:
            run.ob(construct, keeps == {True}, f.fi.where(),
                   "result dtype %s: unit kept on %s" % (name, "every path" if keeps == {True} else
                                                         "no path" if keeps == {False} else "some paths only"),
                   "a + b, a * b, -a, np.sum(a) for Arrays of dtype %s become dimensionless" % name)
        elif kind == "b" and want_bool:
            run.ob(construct, keeps == {False}, f.fi.where(),
                   "boolean result: unit kept on %s" % ("no path" if keeps == {False} else "a path"),
                   "a < b or np.isfinite(a) carries the operand unit instead of being dimensionless")


# =============================================================================== constructor / index gates (D7 on paths)
def check_array_constructor(run, tree):
    """Array.__init__ over value kinds: Base -> NotImplementedError; Quantity (+unit -> ValueError) -> magnitude/units;
    anything else -> values with units(unit); non-ndarray values wrapped with np.asarray."""
    ci = tree.cls(ARRAY)
    fi = tree.method(ci, "__init__")
    run.analysed(fi)
    pn = params(fi)
    SELF, VALUES, UNIT = pn[0], pn[1], pn[2]
    seen = {}
    for path in enumerate_paths(fi.node.body, exc_paths=False):
        kind = "other"
        unit_given = None
        wrapped = None
        for it in path:
            if it[0] == "test":
                t = it[1]
                neg = False
                while isinstance(t, ast.UnaryOp) and isinstance(t.op, ast.Not):
                    neg, t = not neg, t.operand
                if isinstance(t, ast.Call) and is_name(t.func, "isinstance") and is_name(t.args[0], VALUES):
                    r = tree.resolve_expr(fi.module, t.args[1])
                    nm = getattr(r, "name", None) or (r[1].split(".")[-1] if isinstance(r, tuple) else norm(t.args[1]))
                    if (it[2] and not neg) or (not it[2] and neg):
                        kind = nm
                if isinstance(t, ast.Compare) and is_name(t.left, UNIT) and isinstance(t.comparators[0], ast.Constant) and \
                        t.comparators[0].value is None:
                    isnot = isinstance(t.ops[0], ast.IsNot)
                    unit_given = (it[2] == isnot) if not neg else (it[2] != isnot)
        stmts = [norm(it[1]) for it in path if it[0] == "stmt"]
        seen.setdefault((kind, unit_given, path[-1][1]), []).extend(stmts)
    base_raises = any(k[0] == "Base" and k[2] == "raise" for k in seen)
    q_unit_raises = any(k[0] == "Quantity" and k[1] is True and k[2] == "raise" for k in seen)
    q_ok = any(k[0] == "Quantity" and k[2] != "raise" and "%s._array = %s.magnitude" % (SELF, VALUES) in v and
               "%s._unit = %s.units" % (SELF, VALUES) in v for k, v in seen.items())
    other_ok = any(k[0] == "other" and k[2] != "raise" and "%s._array = %s" % (SELF, VALUES) in v and
                   "%s._unit = units(%s)" % (SELF, UNIT) in v for k, v in seen.items())
    run.ob(ARRAY + ".__init__::rejects-Array-or-Vector", base_raises, fi.where(), "an Array/Vector as values raises: %s" % base_raises,
           "Array(Array(...)) nests the wrapper: every later operation dispatches wrongly")
    run.ob(ARRAY + ".__init__::quantity-with-unit-raises", q_unit_raises, fi.where(), "Quantity + explicit unit raises: %s" % q_unit_raises,
           "Array(3*m, unit='s') silently relabels", nontrivial=False)
    run.ob(ARRAY + ".__init__::quantity", q_ok, fi.where(), "a Quantity gives magnitude and units: %s" % q_ok,
           "a + (3*cm): the number 3 is taken as metres")
    run.ob(ARRAY + ".__init__::plain-values", other_ok, fi.where(), "other values are stored with units(unit): %s" % other_ok,
           "a + 1.0 or Array([..], 'm') mislabelled")
    asarr = any("np.asarray(%s._array)" % SELF in " ".join(v) for v in seen.values())
    run.ob(ARRAY + ".__init__::ndarray-coercion", asarr, fi.where(), "non-ndarray values wrapped with np.asarray: %s" % asarr,
           "lists/scalars stay Python objects: .shape/.dtype fail", nontrivial=False)


def check_array_index_gate(run, tree):
    """Array.__getitem__ with an osyris index: Vector rejected, dtype must be integer or bool, raw values used."""
    ci = tree.cls(ARRAY)
    fi = tree.method(ci, "__getitem__")
    pn = params(fi)
    SELF, SL = pn
    raises = [p for p in enumerate_paths(fi.node.body, exc_paths=False) if p[-1][1] == "raise"]
    vec_rej = any(any(it[0] == "test" and "isinstance(%s, %s.__class__)" % (SL, SELF) in norm(it[1]) for it in p) for p in raises)
    dtype_rej = any(any(it[0] == "test" and "%s.dtype not in" % SL in norm(it[1]) and it[2] for it in p) for p in raises)
    types = None
    for n in walk_no_nested(fi.node):
        if isinstance(n, ast.Compare) and norm(n.left) == "%s.dtype" % SL and isinstance(n.ops[0], ast.NotIn):
            types = [const_value(e, norm(e)) for e in n.comparators[0].elts] if isinstance(n.comparators[0], (ast.Tuple, ast.List)) else None
    ok_types = types is not None and {"int32", "int64"} <= set(types) and ("bool" in types)
    run.ob(ARRAY + ".__getitem__::vector-index-rejected", vec_rej, fi.where(), "a Vector index raises: %s" % vec_rej, "a[v] silently uses one component", nontrivial=False)
    run.ob(ARRAY + ".__getitem__::index-dtype-gate", dtype_rej and ok_types, fi.where(), "index Arrays must be integer or bool: accepted dtypes %s" % types,
           "a float Array used as index (e.g. a mask multiplied by 1.0) is accepted / a boolean mask is rejected")
