"""Analyses of core/array.py, core/base.py shared by C02, C07, C10, C17 (operator table, _binary_op paths,
_wrap_numpy structure, dtype gate)."""
from __future__ import annotations

import ast
from fractions import Fraction

from ..peval import Evaluator, Unsupported
from ..poly import Poly, Rat, S
from ..source import AnalysisError, FuncInfo, norm, const_value
from .common import bind_call, is_name, params, single_return

ARRAY = "core/array.py::Array"
BINOP = "core/array.py::_binary_op"


# =============================================================================== operator table
def dunder_semantics(tree, fi):
    """Semantics of an Array dunder that delegates to _binary_op:
    {'ufunc': 'add', 'strict': bool, 'out_self': bool, 'lhs_self': bool, 'rhs_param': bool} or None."""
    ret = single_return(fi)
    if ret is None or not isinstance(ret, ast.Call):
        return None
    callee = tree.resolve_call(fi, ret)
    if not isinstance(callee, FuncInfo) or callee.qual != BINOP:
        return None
    bound, extra, star = bind_call(callee.node, ret)
    if star:
        return None
    pn = params(callee)  # op, lhs, rhs, strict
    if len(pn) < 3:
        raise AnalysisError("_binary_op has fewer than 3 positional parameters")
    op_e, lhs_e, rhs_e = bound.get(pn[0]), bound.get(pn[1]), bound.get(pn[2])
    dotted = tree.dotted(fi.module, op_e) if op_e is not None else None
    ufunc = dotted[len("numpy."):] if dotted and dotted.startswith("numpy.") else None
    strict_e = bound.get("strict")
    strict = const_value(strict_e) if strict_e is not None else None
    me = params(fi)
    return {
        "ufunc": ufunc,
        "strict": strict,
        "out_self": "out" in extra and is_name(extra["out"], me[0]),
        "has_out": "out" in extra,
        "lhs_self": is_name(lhs_e, me[0]),
        "rhs_param": len(me) > 1 and is_name(rhs_e, me[1]),
        "extra": sorted(k for k in extra if k != "out"),
    }




# ----------------------------------------------------------------- composite operators in the S/O algebra
class Q:
    """Quantity-algebra value: rational monomial in S (self) and O (other) + 'guaranteed float' flag."""

    def __init__(self, r, is_float=False, powsym=None):
        self.r, self.is_float, self.powsym = r, is_float, powsym

    def __repr__(self):
        return "Q(%r%s)" % (self.r, ",float" if self.is_float else "")


class CompositeEval(Evaluator):
    """Evaluates the return expression of __rmul__/__rtruediv__/__pow__/__neg__ in the quantity algebra."""

    def __init__(self, tree, fi):
        me = params(fi)
        env = {me[0]: Q(Rat(S("S")))}
        if len(me) > 1:
            env[me[1]] = Q(Rat(S("O")))
        super().__init__(env)
        self.tree, self.fi = tree, fi
        self.problems = []

    def binop(self, node, op, a, b):
        a = a if isinstance(a, Q) else Q(Rat(Poly.const(a)))
        b = b if isinstance(b, Q) else Q(Rat(Poly.const(b)))
        if isinstance(op, ast.Mult):
            return Q(a.r * b.r, a.is_float or b.is_float)
        if isinstance(op, ast.Div):
            return Q(a.r / b.r, True)
        if isinstance(op, ast.Pow):
            if b.r == Rat(S("O")):
                return Q(a.r, a.is_float, powsym=("pow", a.r, "O"))
            return Q(a.r ** b.r.as_poly(), a.is_float)
        if isinstance(op, ast.Add):
            return Q(a.r + b.r, a.is_float and b.is_float)
        if isinstance(op, ast.Sub):
            return Q(a.r - b.r, a.is_float and b.is_float)
        raise Unsupported("operator")

    def ev_UnaryOp(self, node):
        v = self.ev(node.operand)
        if isinstance(node.op, ast.USub) and isinstance(v, Q):
            return Q(-v.r, v.is_float)
        return super().ev_UnaryOp(node)

    def ev_Attribute(self, node):
        d = self.tree.dotted(self.fi.module, node)
        if d and d.startswith("numpy."):
            return ("np", d[6:])
        return super().ev_Attribute(node)

    def call(self, node, func, args, kwargs):
        if isinstance(func, tuple) and func[0] == "np":
            name = func[1]
            a = [x if isinstance(x, Q) else Q(Rat(Poly.const(x))) for x in args]
            if name == "reciprocal" and len(a) == 1:
                if not a[0].is_float:
                    self.problems.append(
                        "np.reciprocal is applied to a value that may have an integer dtype (integer reciprocal "
                        "truncates to 0); it must be applied to the result of a true division")
                return Q(1 / a[0].r, True)
            if name == "negative" and len(a) == 1:
                return Q(-a[0].r, a[0].is_float)
            if name == "multiply" and len(a) == 2:
                return Q(a[0].r * a[1].r, a[0].is_float or a[1].is_float)
            if name in ("divide", "true_divide") and len(a) == 2:
                return Q(a[0].r / a[1].r, True)
            if name == "power" and len(a) == 2:
                if a[1].r == Rat(S("O")):
                    return Q(a[0].r, a[0].is_float, powsym=("pow", a[0].r, "O"))
                return Q(a[0].r ** a[1].r.as_poly(), a[0].is_float)
            if name == "logical_not" and len(a) == 1:
                return Q(a[0].r, powsym=("not", a[0].r))
            if name in ("invert", "bitwise_not") and len(a) == 1:
                # bitwise complement: equals the logical negation on booleans only (-x-1 on integers, TypeError on floats)
                return Q(a[0].r, powsym=("bitwise-not", a[0].r))
        raise Unsupported("call %s in composite operator" % norm(node.func))


COMPOSITES = {
    "__rmul__": ("k * a", lambda q: q.powsym is None and q.r == Rat(S("S") * S("O"))),
    "__rtruediv__": ("k / a", lambda q: q.powsym is None and q.r == Rat(S("O")) / Rat(S("S"))),
    "__pow__": ("a ** k", lambda q: q.powsym == ("pow", Rat(S("S")), "O")),
    "__neg__": ("-a", lambda q: q.powsym is None and q.r == Rat(-S("S"))),
    "__invert__": ("~a", lambda q: q.powsym == ("not", Rat(S("S")))),
    "__radd__": ("k + v", lambda q: q.powsym is None and q.r == Rat(S("S") + S("O"))),
    "__rsub__": ("k - v", lambda q: q.powsym is None and q.r == Rat(S("O") - S("S"))),
}


def check_composites(run, tree, names, cls_qual=ARRAY):
    ci = tree.cls(cls_qual)
    for dunder in names:
        what, accept = COMPOSITES[dunder]
        construct = "%s.%s" % (cls_qual, dunder)
        fi = tree.method(ci, dunder)
        if fi is None:
            run.violated(construct, ci.module.rel, "%s is not defined" % dunder, "%s raises TypeError or bypasses units" % what)
            continue
        run.analysed(fi)
        ret = single_return(fi)
        if ret is None:
            # a body with several statements is not in reach of this expression-level algebra: the composite is decided end to end by the
            # quantity-stack folds (values x unit scale on the interpreted class), which do not depend on the shape of the body
            continue
        ev = CompositeEval(tree, fi)
        try:
            q = ev.ev(ret)
        except Unsupported as e:
            run.unresolved(construct, fi.where(), "cannot evaluate %s in the quantity algebra: %s" % (norm(ret), e))
            continue
        if not isinstance(q, Q):
            run.violated(construct, fi.where(), "%s evaluates to %r" % (norm(ret), q), what)
            continue
        ok = accept(q) and not ev.problems
        run.ob(construct, ok, fi.where(),
               ("%s = %r" % (norm(ret), q)) + ("; " + "; ".join(ev.problems) if ev.problems else ""),
               "%s for any Array a%s" % (what, " of integer dtype" if ev.problems else ""))


# =============================================================================== _binary_op paths


MUTATORS = {"update", "pop", "append", "extend", "clear", "sort", "setdefault", "insert", "remove", "fill",
            "sortby", "popitem", "resize", "put", "itemset", "setfield", "setflags", "partition", "byteswap",
            "__setitem__", "__delitem__", "__iadd__", "__isub__", "__imul__", "__itruediv__"}


# =============================================================================== _wrap_numpy














# =============================================================================== constructor / index gates (D7 on paths)


