"""C06 — rules not implemented yet (fail closed)."""
EXPLANATION = "not implemented"
NOT_DECIDED = "everything"


def not_implemented(run, tree):
    run.rule("C06.R0", "stub")
    run.unresolved("stub", "", "rules for C06 are not implemented yet")


RULES = [not_implemented]
