"""C06 — Datagroup members stay row-aligned under insertion, slicing and sorting."""
from __future__ import annotations

import ast

from . import dg_rules as dg
from . import core_folds as cf

EXPLANATION = 'Folds of the Datagroup class interpreted over token members: (R1) finite histories of insert/replace/update/delete/pop with members of equal and unequal length and scalar members: a mis-shaped item is rejected with the group and the value unchanged, every stored item is renamed to its key; (R2) no function outside core/datagroup.py touches the backing dict (resolved attribute sweep); (R3) group[int|slice|mask|mask as Array|index array] and sortby(name|index list|None): every member (Arrays and Vector components) is indexed with ONE object, units and names kept; members with names the class itself compares against; aliased members (same Array under two names, Vector component stored as a member) permuted once; (R4) Vector mapping methods act on every component; Array.__getitem__ over index kinds x the dtype model (integer/bool Array indexes accepted, others rejected, Vector rejected). Constructor forms go through the insertion gate; slices are compared by the rows they select (negative steps included); a Vector whose component is re-assigned after construction is indexed through its current components. Histories also cover zero-row members, replacement of the first-inserted member, N-d boolean masks on N-d members and Datagroup.layer after a member was replaced. Indexing and sorting run over groups of one Array, one Vector, two and three members; insertion histories cover members of another rank and 0-d members. Indices include python lists of rows and the empty list.'
NOT_DECIDED = "numpy's fancy-indexing semantics themselves; members of dimension > 1"
TRUSTED = ('CPython ast', 'numpy indexing', 'the interpreter sa/models.py (ModelEval) and its library models')

TECHNIQUE = 'static analysis: abstract interpretation of the container classes over token members (finite histories), resolved who-may-access sweep'

def r1_gate(run, tree):
    run.rule("C06.R1", "insertion gate over finite histories: mis-shaped items rejected with the group and the value unchanged, in every "
             "state of the group (fresh, emptied by del/pop/clear, first member removed, replaced member, update on empty/non-empty)",
             "D7 fold of the Datagroup class (ModelEval)", "", floor=10)
    cf.check_datagroup_histories(run, tree)


def r2_single_writer(run, tree):
    run.rule("C06.R2", "no other module touches the backing dict of a Datagroup", "who-may-access over the whole package", "", floor=1)
    bad = []
    for fi in tree.all_functions():
        if fi.module.rel == "core/datagroup.py":
            continue
        for n in ast.walk(fi.node):
            if isinstance(n, ast.Attribute) and n.attr == "_container":
                bad.append((fi, n))
    run.ob(dg.DG + "::backing-dict-private", not bad, bad[0][0].where(bad[0][1]) if bad else "src/osyris/core/datagroup.py",
           "%d accesses to ._container outside core/datagroup.py%s" % (len(bad), ": " + bad[0][0].qual if bad else ""),
           "members inserted without the shape gate")


def r3_one_index(run, tree):
    run.rule("C06.R3", "one index / one permutation for all members (integer, slice, masks, index arrays; sortby by name and by list)",
             "D7 fold of the Datagroup class (ModelEval)", "", floor=7)
    cf.check_group_indexing(run, tree)


def r4_member_indexing(run, tree):
    run.rule("C06.R4", "member indexing: Vector component-uniform, Array index passed to the buffer; units and names kept",
             "D7 fold + sibling agreement", "", floor=3)
    cf.check_vector_unary_and_maps(run, tree)
    cf.check_vector_component_reassigned(run, tree)
    from . import array_folds as af
    af.check_index_gate_fold(run, tree)


RULES = [r1_gate, r2_single_writer, r3_one_index, r4_member_indexing]


def t_history_space(run, tree):
    run.rule("C06.T1", "thorough: every sequence of up to 3 dictionary operations on a fresh Datagroup (12 operations: set with matching / mismatching length, del, pop, clear, "
             "update with good / bad items) agrees step by step with a reference dictionary with the insertion gate", "D7 fold of the Datagroup class over the complete space of short histories", "", floor=1)
    cf.check_datagroup_history_space(run, tree, depth=3)


THOROUGH_RULES = [t_history_space]
