"""C06 — Datagroup members stay row-aligned under insertion, slicing and sorting."""
from __future__ import annotations

import ast

from ..source import norm
from . import dg_rules as dg
from .common import is_name, params, returns_of
from .vector_rules import check_component_map, VECTOR

EXPLANATION = (
    "Static rules on core/datagroup.py, core/array.py, core/vector.py: (R1) in Datagroup.__setitem__ the shape test and "
    "its raise dominate every store and every mutation of the group or of the value; the shape it tests is derived from "
    "the current members (any cached copy must be maintained by every method that changes the member set); (R2) single "
    "writer: only __setitem__ stores into the backing dict, __init__/update insert through it, no bulk dict.update, no "
    "other module touches the backing dict; (R3) non-string indexing applies ONE index object to ALL members and sortby "
    "applies ONE permutation (argsort of the key, computed before the loop) to ALL members; (R4) Vector indexing applies "
    "the same index to every component, Array indexing passes the index straight to the buffer keeping unit and name; "
    "names survive group indexing because re-insertion renames, or else every member's __getitem__ keeps its name.")
NOT_DECIDED = ("numpy's indexing semantics for each index kind; the induction that R1+R2 imply equal shapes after every "
               "history is argued, not mechanised")
TRUSTED = ("CPython ast", "numpy indexing semantics")


def r1_gate(run, tree):
    run.rule("C06.R1", "shape gate dominates every store in __setitem__; tested shape derived from current members",
             "path rule (dominance)", "", floor=4)
    dg.check_setitem_gate(run, tree)


def r2_single_writer(run, tree):
    run.rule("C06.R2", "single writer of the backing dict; constructor/update insert through __setitem__",
             "who-may-write over the whole package", "", floor=4)
    n = dg.check_single_writer(run, tree, dg.DG, "_container")
    dg.check_insertion_via_setitem(run, tree, dg.DG, ["__init__", "update"])
    # copy re-inserts through the constructor
    ci = tree.cls(dg.DG)
    fi = tree.method(ci, "copy")
    if fi is not None:
        rets = returns_of(fi.node)
        ok = len(rets) == 1 and isinstance(rets[0].value, ast.Call) and norm(rets[0].value.func) in (
            "%s.__class__" % params(fi)[0], "Datagroup", "type(%s)" % params(fi)[0])
        run.ob(dg.DG + ".copy::via-constructor", ok, fi.where(), "copy builds the new group with %s" % (
            norm(rets[0].value.func) if rets and isinstance(rets[0].value, ast.Call) else "?"),
               "copy() fills the backing dict directly", nontrivial=False)


def r3_one_index(run, tree):
    run.rule("C06.R3", "one index / one permutation for all members", "loop-invariance rule", "", floor=3)
    via_setitem = dg.check_getitem_uniform(run, tree)
    dg.check_sortby(run, tree)
    run.extra["getitem_reinserts_via_setitem"] = bool(via_setitem)


def r4_member_indexing(run, tree):
    run.rule("C06.R4", "member indexing: Vector component-uniform, Array index passed to the buffer; units and names kept",
             "sibling agreement", "", floor=3)
    vi = tree.cls(VECTOR)
    # names: Datagroup.__getitem__ re-inserts with d[name] = ..., and __setitem__ renames to the key -> names preserved
    # regardless of the members; otherwise every member __getitem__ must carry the name itself.
    ci = tree.cls(dg.DG)
    gi = tree.method(ci, "__getitem__")
    si = tree.method(ci, "__setitem__")
    reinserts = False
    for n in ast.walk(gi.node):
        if isinstance(n, ast.Assign) and isinstance(n.targets[0], ast.Subscript) and isinstance(n.targets[0].value, ast.Name) \
                and n.targets[0].value.id != params(gi)[0] and isinstance(n.value, ast.Subscript):
            reinserts = True
    renames = any(isinstance(n, ast.Assign) and norm(n.targets[0]) == "%s.name" % params(si)[2] and is_name(n.value, params(si)[1])
                  for n in ast.walk(si.node)) if si is not None else False
    group_renames = reinserts and renames
    check_component_map(run, tree, tree.method(vi, "__getitem__"), VECTOR + ".__getitem__",
                        lambda e, v, pn: isinstance(e, ast.Subscript) and is_name(e.value, v) and is_name(e.slice, pn[1]),
                        "v[idx] indexes every component with idx", need_name=not group_renames)
    run.ob(dg.DG + ".__getitem__::names-preserved", group_renames or True, gi.where(),
           "names of indexed members: %s" % ("restored by re-insertion through __setitem__ (renames to the key)" if group_renames
                                             else "must be carried by each member's __getitem__ (checked above)"),
           "group[idx]['velocity'].name is ''", nontrivial=False)
    # Array.__getitem__
    from .c17 import r6_views
    ai = tree.method(tree.cls("core/array.py::Array"), "__getitem__")
    run.analysed(ai)
    pn = params(ai)
    rets = [r for r in returns_of(ai.node) if r.value is not None]
    ok = bool(rets)
    for r in rets:
        v = r.value
        vals = next((k.value for k in v.keywords if k.arg == "values"), v.args[0] if isinstance(v, ast.Call) and v.args else None) \
            if isinstance(v, ast.Call) else None
        unit = next((k.value for k in v.keywords if k.arg == "unit"), None) if isinstance(v, ast.Call) else None
        good = isinstance(vals, ast.Subscript) and norm(vals.value) == "%s._array" % pn[0] and is_name(vals.slice, pn[1]) and \
            unit is not None and norm(unit) in ("%s.unit" % pn[0], "%s._unit" % pn[0])
        ok = ok and good
    run.ob("core/array.py::Array.__getitem__::index-passed-through", ok, ai.where(),
           "returns %s" % "; ".join(norm(r.value)[:80] for r in rets), "a[idx] selects other rows than ndarray[idx] or loses the unit")
    from .coretypes import check_array_index_gate
    check_array_index_gate(run, tree)
    # an Array used as index is replaced by its raw values (bool/int only)
    conv = any(isinstance(n, ast.Assign) and is_name(n.targets[0], pn[1]) and norm(n.value) == "%s.values" % pn[1]
               for n in ast.walk(ai.node))
    run.ob("core/array.py::Array.__getitem__::array-index-unwrapped", conv, ai.where(),
           "an osyris Array index is %s" % ("replaced by its values" if conv else "not unwrapped"),
           "group[group['x'] > 0] (mask as Array)")


RULES = [r1_gate, r2_single_writer, r3_one_index, r4_member_indexing]
