"""C06 — Datagroup members stay row-aligned under insertion, slicing and sorting."""
from __future__ import annotations

import ast

from ..source import norm
from . import dg_rules as dg
from . import core_folds as cf
from .common import is_name, params, returns_of
from .vector_rules import check_component_map, VECTOR

EXPLANATION = (
    "Static rules on core/datagroup.py, core/array.py, core/vector.py: (R1) in Datagroup.__setitem__ the shape test and "
    "its raise dominate every store and every mutation of the group or of the value; the shape it tests is derived from "
    "the current members (any cached copy must be maintained by every method that changes the member set); (R2) single "
    "writer: only __setitem__ stores into the backing dict, __init__/update insert through it, no bulk dict.update, no "
    "other module touches the backing dict; (R3) non-string indexing applies ONE index object to ALL members and sortby "
    "applies ONE permutation (argsort of the key, computed before the loop) to ALL members; (R4) Vector indexing applies "
    "the same index to every component, Array indexing passes the index straight to the buffer keeping unit and name; "
    "names survive group indexing because re-insertion renames, or else every member's __getitem__ keeps its name.")
NOT_DECIDED = ("numpy's indexing semantics for each index kind; the induction that R1+R2 imply equal shapes after every "
               "history is argued, not mechanised")
TRUSTED = ("CPython ast", "numpy indexing semantics")


def r1_gate(run, tree):
    run.rule("C06.R1", "insertion gate over finite histories: mis-shaped items rejected with the group and the value unchanged, in every "
             "state of the group (fresh, emptied by del/pop/clear, first member removed, replaced member, update on empty/non-empty)",
             "D7 fold of the Datagroup class (ModelEval)", "", floor=10)
    cf.check_datagroup_histories(run, tree)


def r2_single_writer(run, tree):
    run.rule("C06.R2", "no other module touches the backing dict of a Datagroup", "who-may-access over the whole package", "", floor=1)
    bad = []
    for fi in tree.all_functions():
        if fi.module.rel == "core/datagroup.py":
            continue
        for n in ast.walk(fi.node):
            if isinstance(n, ast.Attribute) and n.attr == "_container":
                bad.append((fi, n))
    run.ob(dg.DG + "::backing-dict-private", not bad, bad[0][0].where(bad[0][1]) if bad else "src/osyris/core/datagroup.py",
           "%d accesses to ._container outside core/datagroup.py%s" % (len(bad), ": " + bad[0][0].qual if bad else ""),
           "members inserted without the shape gate")


def r3_one_index(run, tree):
    run.rule("C06.R3", "one index / one permutation for all members (integer, slice, masks, index arrays; sortby by name and by list)",
             "D7 fold of the Datagroup class (ModelEval)", "", floor=7)
    cf.check_group_indexing(run, tree)


def r4_member_indexing(run, tree):
    run.rule("C06.R4", "member indexing: Vector component-uniform, Array index passed to the buffer; units and names kept",
             "D7 fold + sibling agreement", "", floor=3)
    cf.check_vector_unary_and_maps(run, tree)
    from . import array_folds as af
    af.check_index_gate_fold(run, tree)


RULES = [r1_gate, r2_single_writer, r3_one_index, r4_member_indexing]
