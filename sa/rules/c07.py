"""C07 — comparisons and logical operators compare physical quantities."""
from __future__ import annotations

from ..specs import operators as optab
from . import coretypes as ct
from .units_rules import check_array_to

EXPLANATION = (
    "Static rules on core/array.py: (R1) the six comparison and three binary logical dunders resolve to "
    "_binary_op(<numpy comparison/logical ufunc>, self, other) with strict conversion, ~a to np.logical_not(a); (R2) on every "
    "strict path of _binary_op the right operand is converted to the unit of the left one before the ufunc is called, a "
    "failed conversion is not caught, and a conversion to an equal unit is the identity (no float round trip of integer "
    "values); (R3) boolean results are never given a unit (dtype predicate evaluated over a model of numpy dtypes) and "
    "no comparison ufunc is in the unit-transforming set.")
NOT_DECIDED = "the verdict of each element-wise comparison as a number (numpy after pint); broadcasting shapes"
TRUSTED = ("CPython ast", "numpy/pint behave as documented", "S4 operator table", "numpy dtype model")


def r1_table(run, tree):
    run.rule("C07.R1", "comparison/logical operator table", "S4 table", "Python data model", floor=10)
    ct.check_operator_table(run, tree, optab.COMPARE)
    ct.check_operator_table(run, tree, optab.LOGICAL)
    ct.check_composites(run, tree, ["__invert__"])


def r2_strict_conversion(run, tree):
    run.rule("C07.R2", "strict conversion dominates the comparison ufunc; equal-unit conversion is the identity",
             "path enumeration + D1", "", floor=4)
    ct.analyse_binary_op(run, tree, "C07.R2", want_strict=(True,))
    check_array_to(run, tree)
    ct.check_array_constructor(run, tree)


def r3_bool_dimensionless(run, tree):
    run.rule("C07.R3", "boolean results are dimensionless", "D7 fincase over the dtype model", "numpy dtype model", floor=2)
    ct.check_dtype_gate(run, tree, want_numeric=False, want_bool=True)
    f = ct.analyse_wrap_numpy(tree)
    if f.apply_tuple is None:
        run.unresolved(ct.ARRAY + "._wrap_numpy::APPLY_OP_TO_UNIT", f.fi.where(), "unit-transforming set not found")
        return
    bad = [n for n in optab.PREDICATES if n in f.apply_tuple]
    run.ob(ct.ARRAY + "::APPLY_OP_TO_UNIT[no predicates]", not bad, f.fi.where(),
           "comparison/logical ufuncs in the unit-transforming set: %s" % (bad or "none"),
           "np.less applied to unit quantities")


RULES = [r1_table, r2_strict_conversion, r3_bool_dimensionless]
