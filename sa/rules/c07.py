"""C07 — comparisons and logical operators compare physical quantities."""
from __future__ import annotations

from ..specs import operators as optab
from . import coretypes as ct
from . import array_folds as af
from . import quantity_stack as qs

EXPLANATION = '(R1) every comparison/logical dunder of Array evaluated with _binary_op stubbed, as a TRUTH SET over the element-wise relation of the operands {lt, eq, gt, unordered} (resp. boolean pairs): it must equal the truth set of the numpy function the Python data model prescribes (so ~(a > b) is not accepted for <=: it differs on NaN), strict, operands in order; (R2) _binary_op (strict) over operand kinds x unit relations, Array.to, Array.__init__ (shared with C02); (R3) boolean results are dimensionless over the dtype model. (R4) end to end: a [m] <op> b [cm] compares the physical quantities; a python int reaches numpy as an int; (R5) the one pint registry: cgs, no context enabled, defined symbols parsed as written (shared with C08); (R6) operands reach numpy as their buffers, a 0-d Array not as a python scalar. (R7) a conversion repeated after the buffer changed reflects the change; defined unit symbols do not shadow SI-prefixed units. (R8) histories comparison; mutator; the same comparison again (in-place operators, buffer edits, unit re-assignment; python 0 against a dimensional Array raises; x == x looks at the values).'
NOT_DECIDED = "numpy's comparison of the converted numbers; floating-point rounding of the conversion"
TRUSTED = ('CPython ast', 'IEEE/numpy comparison semantics encoded in the truth sets', 'S4 operator table', 'the interpreter sa/models.py (ModelEval) and its library models')

TECHNIQUE = 'static analysis: finite truth-set semantics for the comparison operators, abstract interpretation of the Array class over unit/buffer tokens'

def r1_table(run, tree):
    run.rule("C07.R1", "comparison/logical operator table", "S4 table", "Python data model", floor=10)
    af.check_operator_table_fold(run, tree, optab.COMPARE)
    af.check_operator_table_fold(run, tree, optab.LOGICAL)
    ct.check_composites(run, tree, ["__invert__"])


def r2_strict_conversion(run, tree):
    run.rule("C07.R2", "strict conversion precedes the comparison ufunc; equal-unit conversion is the identity",
             "D7 fold of _binary_op (strict) + D1 on Array.to", "pint: Quantity.to raises DimensionalityError iff dimensions differ", floor=6)
    af.check_binary_op_fold(run, tree, stricts=(True,))
    af.check_to_fold(run, tree)
    af.check_constructor_fold(run, tree)


def r3_bool_dimensionless(run, tree):
    run.rule("C07.R3", "boolean results are dimensionless", "D7 fold of _wrap_numpy over the dtype model", "numpy dtype model", floor=1)
    af.check_wrap_numpy_fold(run, tree, want=("gate-bool",))


def r4_end_to_end(run, tree):
    run.rule("C07.R4", "end to end: a [m] <op> b [cm] compares the physical quantities (the sign of A*k_m - B*k_cm), labelled dimensionless; "
             "a python int operand reaches numpy as an int (no float rounding of 64-bit integers)", "D7 fold of the whole Array class with numpy ufuncs and pint units as models", "", floor=5)
    qs.check_array_stack(run, tree, only=("compare",))
    qs.check_constructor_stack(run, tree)


def r5_registry(run, tree):
    run.rule("C07.R5", "'incompatible dimensions raise' rests on the one pint registry (shared with C08): cgs system, no context enabled, units parsed as written",
             "D7 fold of units/units.py::Units on a recording registry", "", floor=4)
    from .c08 import check_registry
    check_registry(run, tree)


def r6_operands(run, tree):
    run.rule("C07.R6", "both operands reach the comparison function as their buffers (also a 0-d Array: not as a python scalar, which numpy would compare in the other "
             "operand's dtype), other operand kinds unchanged (shared with C02/C10)", "D7 fold of _wrap_numpy over operand kinds", "", floor=5)
    af.check_wrap_numpy_fold(run, tree, want=("operands",))


def r_conversion_history(run, tree):
    run.rule("C07.R7", "a conversion is computed from the operand as it is NOW: converting, changing the buffer in place, converting again gives the new values (no memo of an earlier conversion; shared with C02.R7/C08.R6)",
             "D7 history fold of Array.to with symbolic buffers", "", floor=1)
    from . import quantity_stack as qs
    qs.check_to_stack(run, tree, only=("history",))


def r_histories(run, tree):
    run.rule("C07.R8", "histories: a comparison; a mutator (in-place operator, buffer edit, unit re-assignment); the same comparison again - the answer is the "
             "comparison of the physical quantities as they are NOW, operands untouched; python 0 against a dimensional Array raises; x == x looks at the values",
             "D7 fold of the whole Array class over operation sequences", "", floor=4)
    qs.check_array_history_space(run, tree, "quick", family="compare")


RULES = [r1_table, r2_strict_conversion, r3_bool_dimensionless, r4_end_to_end, r5_registry, r6_operands, r_conversion_history, r_histories]


def t_pair_space(run, tree):
    run.rule("C07.T1", "thorough: every comparison over all ordered pairs of 15 units: sign of the difference of the physical quantities, dimensionless result, refusal exactly for differing dimensions", "D7 fold of the whole Array class (and Vector.to) with dispatching numpy models and symbolic-scale units, over the complete product of the unit list", "", floor=1)
    qs.check_unit_pair_space(run, tree, kinds=("cmp",))


def t_history_space(run, tree):
    run.rule("C07.T2", "thorough: the complete product comparison x mutator x the same comparison (all six comparison operators, four in-place operators, buffer edits, unit "
             "re-assignment; operands a, b, c, Quantity, 0, 2.0, self)", "D7 fold of the whole Array class over operation sequences", "", floor=6)
    qs.check_array_history_space(run, tree, "thorough", family="compare")


THOROUGH_RULES = [t_pair_space, t_history_space]
