"""C07 — comparisons and logical operators compare physical quantities."""
from __future__ import annotations

from ..specs import operators as optab
from . import coretypes as ct
from . import array_folds as af

EXPLANATION = (
    "Static rules on core/array.py: (R1) the six comparison and three binary logical dunders resolve to "
    "_binary_op(<numpy comparison/logical ufunc>, self, other) with strict conversion, ~a to np.logical_not(a); (R2) on every "
    "strict path of _binary_op the right operand is converted to the unit of the left one before the ufunc is called, a "
    "failed conversion is not caught, and a conversion to an equal unit is the identity (no float round trip of integer "
    "values); (R3) boolean results are never given a unit (dtype predicate evaluated over a model of numpy dtypes) and "
    "no comparison ufunc is in the unit-transforming set.")
NOT_DECIDED = "the verdict of each element-wise comparison as a number (numpy after pint); broadcasting shapes"
TRUSTED = ("CPython ast", "numpy/pint behave as documented", "S4 operator table", "numpy dtype model")


def r1_table(run, tree):
    run.rule("C07.R1", "comparison/logical operator table", "S4 table", "Python data model", floor=10)
    af.check_operator_table_fold(run, tree, optab.COMPARE)
    af.check_operator_table_fold(run, tree, optab.LOGICAL)
    ct.check_composites(run, tree, ["__invert__"])


def r2_strict_conversion(run, tree):
    run.rule("C07.R2", "strict conversion precedes the comparison ufunc; equal-unit conversion is the identity",
             "D7 fold of _binary_op (strict) + D1 on Array.to", "pint: Quantity.to raises DimensionalityError iff dimensions differ", floor=6)
    af.check_binary_op_fold(run, tree, stricts=(True,))
    af.check_to_fold(run, tree)
    af.check_constructor_fold(run, tree)


def r3_bool_dimensionless(run, tree):
    run.rule("C07.R3", "boolean results are dimensionless", "D7 fold of _wrap_numpy over the dtype model", "numpy dtype model", floor=1)
    af.check_wrap_numpy_fold(run, tree, want=("gate-bool",))


RULES = [r1_table, r2_strict_conversion, r3_bool_dimensionless]
