"""C19 — plot calls do not modify their inputs; per-layer options override call options."""
from __future__ import annotations

import ast

from ..origin import OriginAnalysis
from ..peval import Evaluator, Model, Unsupported, RaisedInModel
from ..source import norm, const_value, walk_no_nested, FuncInfo
from .common import is_name, params, returns_of, calls_in, bind_call

EXPLANATION = (
    "Static rules: (R1) interprocedural provenance analysis (D3) from each of map, histogram1d, histogram2d, scatter and plot "
    "through every resolved callee (parse_layer, Layer.copy/__init__, get_norm, get_direction, VectorBasis, normalize, "
    "_add_scatter, render and every public function of plot/wrappers.py): no attribute/subscript store, del, in-place "
    "operator or mutating method call reaches an object that may alias something passed by the caller (ax/fig and the "
    "matplotlib norm autoscaling in wrappers.streamplot are named exemptions); (R2) precedence: parse_layer and "
    "Layer.update are evaluated over all combinations layer-value in {unset, falsy, set} x call-value in {unset, set} for "
    "the seven option fields and the extra keyword options: the layer value wins unless it is None, the input layer is not "
    "modified and the result is a distinct object; every entry point forwards each call-level option under its own name and "
    "builds the norm from the merged layer fields; (R3) no module-level mutable state of plot/ or core/layer.py is written; "
    "(R4) an option that is forwarded to parse_layer has no other use in the entry point (after the merge the function "
    "must read the merged layer).")
NOT_DECIDED = "what matplotlib draws; equality of the returned data as numbers (follows from R1/R3 + determinism of the kernels)"
TRUSTED = ("CPython ast", "catalogue of mutating methods (sa/origin.py)", "library objects' non-catalogued methods do not "
           "mutate their receiver", "a fresh abstract object may summarise several concrete objects of one allocation site")
TECHNIQUE = ("static analysis: interprocedural, flow- and field-sensitive provenance (may-alias-a-parameter) analysis over the "
             "resolved call graph; finite-case evaluation of the option-merging code")

ENTRIES = ["plot/map.py::map", "plot/histogram1d.py::histogram1d", "plot/histogram2d.py::histogram2d",
           "plot/scatter.py::scatter", "plot/plot.py::plot"]
# one named symbol each, with the reason
EXEMPT_SITES = {
    ("plot/wrappers.py::streamplot", "default_args['norm'].vmin = default_args['color'].min()"):
        "matplotlib norm object: autoscaled exactly as matplotlib itself does when vmin is None",
    ("plot/wrappers.py::streamplot", "default_args['norm'].vmax = default_args['color'].max()"):
        "matplotlib norm object: autoscaled exactly as matplotlib itself does when vmax is None",
}
OPTION_FIELDS = ["mode", "operation", "norm", "vmin", "vmax", "bins", "weights"]


def r1_immutability(run, tree):
    run.rule("C19.R1", "argument immutability from the five plot entry points", "D3 provenance, interprocedural", "",
             floor=5)
    for q in ENTRIES:
        fi = tree.func(q)
        an = OriginAnalysis(tree, exempt_params=("ax", "fig"), exempt_sites=EXEMPT_SITES)
        findings = an.analyse_entry(fi)
        run.analysed(fi)
        for fq in an.functions_seen:
            run.functions.add(fq)
        run.call_sites += an.call_sites
        for f in findings:
            run.violated("%s::%s::%s" % (f.fi.qual, f.what, norm(f.node)[:120]), f.fi.where(f.node),
                         "reached from %s via %s: the statement stores through / mutates an object that may alias the "
                         "caller's argument(s) %s" % (q, " -> ".join(c.split("::")[1] for c in f.chain), f.params),
                         "the caller's %s is different after the call; a second call sharing the object sees the leftovers" % (
                             ", ".join(f.params)))
        run.holds("%s::no-store-through-arguments" % q, fi.where(),
                  "%d functions, %d call sites analysed, %d mutation sites on caller-owned objects" % (
                      len(an.functions_seen), an.call_sites, len(findings))) if not findings else None
    run.assume("exempt: ax, fig (drawing targets by contract); wrappers.streamplot autoscaling of a matplotlib norm object")


# ------------------------------------------------------------------------------------------ R2 precedence
class LayerModel(Model):
    def __init__(self, fields, kwargs, key="k"):
        for k, v in fields.items():
            setattr(self, k, v)
        self.kwargs = dict(kwargs)
        self.key = key
        self.arrays = {key: "DATA"}
        self.copies = 0

    def copy(self):
        c = LayerModel({f: getattr(self, f) for f in OPTION_FIELDS}, self.kwargs, self.key)
        c.arrays = dict(self.arrays)
        c.is_copy_of = self
        return c

    @property
    def data(self):
        return self.arrays[self.key]


class PrecEval(Evaluator):
    def __init__(self, tree, fi, env):
        super().__init__(env)
        self.tree, self.fi = tree, fi

    def ev_Name(self, node):
        if node.id in self.env:
            return self.env[node.id]
        if node.id in ("None", "True", "False"):
            return {"None": None, "True": True, "False": False}[node.id]
        raise Unsupported("name %s" % node.id)

    def call(self, node, func, args, kwargs):
        if callable(func):
            try:
                return func(*args, **kwargs)
            except TypeError as e:
                raise Unsupported(str(e))
        raise Unsupported("call %s" % norm(node.func))


def check_merge(run, tree, qual, in_place):
    fi = tree.func(qual)
    run.analysed(fi)
    pn = params(fi)
    bad = {}
    n_cases = 0
    for lv_name, lv in (("unset", None), ("falsy (0)", 0), ("set", "L")):
        for cv_name, cv in (("unset", None), ("set", "C")):
            layer = LayerModel({f: lv for f in OPTION_FIELDS}, {"a": "L"})
            env = {}
            ev = PrecEval(tree, fi, env)
            kwargs = {f: (None if cv is None else "C:" + f) for f in OPTION_FIELDS}
            kwargs.update({"a": "C", "b": "C"})
            try:
                out = ev.run_function(fi.node, [layer], kwargs_for(fi, kwargs))
            except (Unsupported, RaisedInModel) as e:
                run.unresolved("%s::merge" % qual, fi.where(), "cannot evaluate the merge: %s" % e)
                return
            target = layer if in_place else out
            n_cases += 1
            if not isinstance(target, LayerModel):
                bad.setdefault("result", []).append("returns %r" % (target,))
                continue
            for f in OPTION_FIELDS:
                want = lv if lv is not None else (None if cv is None else "C:" + f)
                got = getattr(target, f, "<missing>")
                if got != want or (got is None) != (want is None):
                    bad.setdefault(f, []).append("layer %s / call %s -> %r (required %r)" % (lv_name, cv_name, got, want))
            if target.kwargs != {"a": "L", "b": "C"}:
                bad.setdefault("kwargs", []).append("extra options merged to %r (required {'a': 'L', 'b': 'C'})" % target.kwargs)
            if not in_place:
                if out is layer:
                    bad.setdefault("copy", []).append("the input layer itself is returned")
                if any(getattr(layer, f) != lv for f in OPTION_FIELDS) or layer.kwargs != {"a": "L"}:
                    bad.setdefault("input", []).append("the input layer was modified")
    for f in OPTION_FIELDS + ["kwargs"] + ([] if in_place else ["copy", "input"]):
        run.ob("%s::precedence[%s]" % (qual, f), f not in bad, fi.where(),
               "; ".join(bad.get(f, [])[:3]) or "layer value wins unless None, in all %d combinations" % n_cases,
               "a Layer that sets %s (e.g. to 0) is overridden by the call-level value, or the caller's Layer is changed" % f)


def kwargs_for(fi, kwargs):
    """Split the test keyword arguments into named parameters and the **kwargs dict of fi."""
    a = fi.node.args
    names = {x.arg for x in a.args + a.kwonlyargs}
    out = {k: v for k, v in kwargs.items() if k in names}
    if a.kwarg is not None:
        out[a.kwarg.arg] = {k: v for k, v in kwargs.items() if k not in names}
    return out


def r2_precedence(run, tree):
    run.rule("C19.R2", "precedence: layer-level options win; call-level options forwarded under their own names",
             "D7 finite cases + sibling agreement", "", floor=20)
    check_merge(run, tree, "plot/parser.py::parse_layer", in_place=False)
    check_merge(run, tree, "core/layer.py::Layer.update", in_place=True)
    # forwarding at the call sites
    pl = tree.func("plot/parser.py::parse_layer")
    for q in ENTRIES[:3]:
        fi = tree.func(q)
        fparams = {a.arg for a in fi.node.args.args + fi.node.args.kwonlyargs}
        sites = [c for c in calls_in(fi.node) if isinstance(tree.resolve_call(fi, c), FuncInfo) and
                 tree.resolve_call(fi, c).qual == pl.qual]
        if not sites:
            run.violated("%s::parse_layer-call" % q, fi.where(), "the entry point no longer merges options with parse_layer",
                         "layer-level options are ignored")
            continue
        for c in sites:
            wrong = [(k.arg, norm(k.value)) for k in c.keywords if k.arg in OPTION_FIELDS and not is_name(k.value, k.arg)]
            fwd_kwargs = any(k.arg is None for k in c.keywords) if fi.node.args.kwarg is not None else True
            missing = [o for o in OPTION_FIELDS if o in fparams and o not in {k.arg for k in c.keywords}]
            run.ob("%s::parse_layer-call::forwarding" % q, not wrong and fwd_kwargs and not missing, fi.where(c),
                   "mis-forwarded: %s; not forwarded: %s; **kwargs forwarded: %s" % (wrong or "none", missing or "none", fwd_kwargs),
                   "the call-level vmin is used as vmax (or an option never reaches the layers)")
            # the result replaces the layer variable that is used afterwards
        # the options handed to the renderer are the merged layer's own keyword options
        lname = None
        for st in walk_no_nested(fi.node):
            if isinstance(st, ast.Assign) and isinstance(st.value, ast.Call) and st.value in sites and isinstance(st.targets[0], ast.Name):
                lname = st.targets[0].id
        pvals = [norm(v) for d in walk_no_nested(fi.node) if isinstance(d, ast.Dict) for k, v in zip(d.keys, d.values) if const_value(k) == "params"]
        if q != ENTRIES[1]:
            run.ob("%s::renderer-options-from-merged-layer" % q, bool(pvals) and lname is not None and all(v == "%s.kwargs" % lname for v in pvals),
                   fi.where(), "renderer params = %s (merged layer is `%s`)" % (pvals, lname),
                   "keyword options set on a Layer (cmap=..., cbar=...) are ignored in favour of the call-level ones")
        # norm built from the merged layer
        gn = [c for c in calls_in(fi.node) if isinstance(tree.resolve_call(fi, c), FuncInfo) and
              tree.resolve_call(fi, c).qual == "plot/parser.py::get_norm"]
        for c in gn:
            kws = {k.arg: norm(k.value) for k in c.keywords}
            ok = all(kws.get(f, "").endswith("." + f) and not kws.get(f, "").startswith(("self.",)) for f in ("norm", "vmin", "vmax"))
            roots = {kws.get(f, "").split(".")[0] for f in ("norm", "vmin", "vmax")}
            run.ob("%s::get_norm-from-merged-layer" % q, ok and len(roots) == 1, fi.where(c), "get_norm(%s)" % kws,
                   "the colour norm ignores the layer's own vmin/vmax/norm")
    # get_norm passes vmin/vmax straight through in every branch
    g = tree.func("plot/parser.py::get_norm")
    run.analysed(g)
    for c in calls_in(g.node):
        d = tree.dotted(g.module, c.func)
        if d and d.startswith("matplotlib.colors."):
            kws = {k.arg: norm(k.value) for k in c.keywords}
            run.ob("plot/parser.py::get_norm::%s" % d.split(".")[-1], kws.get("vmin") == "vmin" and kws.get("vmax") == "vmax",
                   g.where(c), "%s(%s)" % (d.split(".")[-1], kws), "vmin and vmax swapped or dropped for one norm type")


def r3_hidden_state(run, tree):
    run.rule("C19.R3", "no hidden state: no module-level mutable object of plot/ or core/layer.py is written", "effect rule", "",
             floor=1)
    n = 0
    for mi in tree.modules.values():
        if not (mi.rel.startswith("plot/") or mi.rel in ("core/layer.py", "core/plot.py")):
            continue
        n += 1
        for fi in list(mi.functions.values()) + [m for c in mi.classes.values() for m in c.methods.values()]:
            for node in walk_no_nested(fi.node):
                if isinstance(node, (ast.Global, ast.Nonlocal)):
                    run.violated("%s::global-statement" % fi.qual, fi.where(node), "`%s`" % norm(node),
                                 "a second identical call returns different data")
        mutable_globals = [name for name, v in mi.assigns.items() if isinstance(v, (ast.Dict, ast.List, ast.Set, ast.ListComp))
                           and name != "__all__"]
        for g in mutable_globals:
            written = False
            for fi in tree.all_functions():
                for node in walk_no_nested(fi.node):
                    if isinstance(node, (ast.Subscript, ast.Attribute)) and isinstance(node.ctx, (ast.Store, ast.Del)) and \
                            isinstance(node.value, ast.Name) and node.value.id == g and fi.module.rel == mi.rel:
                        written = True
                    if isinstance(node, ast.Call) and isinstance(node.func, ast.Attribute) and is_name(node.func.value, g) and \
                            fi.module.rel == mi.rel and node.func.attr in ("append", "update", "pop", "clear", "setdefault", "extend"):
                        written = True
            run.ob("%s::module-level-mutable[%s]" % (mi.rel, g), not written, "src/osyris/" + mi.rel,
                   "module-level %s is %s" % (g, "written by a function" if written else "never written"),
                   "results depend on earlier calls")
    run.holds("plot/*::no-global-statements", "src/osyris/plot", "%d modules scanned" % n, nontrivial=False)


def r4_no_bypass(run, tree):
    run.rule("C19.R4", "merged options are not bypassed", "def-use rule", "", floor=12)
    pl = tree.func("plot/parser.py::parse_layer")
    for q in ENTRIES[:3]:
        fi = tree.func(q)
        fparams = {a.arg for a in fi.node.args.args + fi.node.args.kwonlyargs}
        sites = [c for c in calls_in(fi.node) if isinstance(tree.resolve_call(fi, c), FuncInfo) and
                 tree.resolve_call(fi, c).qual == pl.qual]
        forwarded = set()
        inside = set()
        for c in sites:
            for k in c.keywords:
                if k.arg in OPTION_FIELDS and isinstance(k.value, ast.Name) and k.value.id in fparams:
                    forwarded.add(k.value.id)
            for n in ast.walk(c):
                inside.add(id(n))
        for opt in sorted(forwarded):
            uses = [n for n in walk_no_nested(fi.node) if isinstance(n, ast.Name) and n.id == opt and
                    isinstance(n.ctx, ast.Load) and id(n) not in inside]
            run.ob("%s::option[%s]::only-through-merged-layer" % (q, opt), not uses, fi.where(uses[0]) if uses else fi.where(),
                   "call-level `%s` is %s" % (opt, "also read directly at line(s) %s" % sorted({u.lineno for u in uses}) if uses
                                              else "read only by parse_layer"),
                   "a Layer that sets %s is processed with the call-level value instead (e.g. a thick map reduces a layer "
                   "with operation='mean' using the default 'sum')" % opt)


RULES = [r1_immutability, r2_precedence, r3_hidden_state, r4_no_bypass]
