"""C19 — plot calls do not modify their inputs; per-layer options override call options."""
from __future__ import annotations

import ast

from ..origin import OriginAnalysis
from ..deps import DepAnalysis, clean
from . import layer_folds as lf
from ..source import norm, walk_no_nested
from .common import is_name

EXPLANATION = "(R1) interprocedural provenance analysis (D3) from map, histogram1d, histogram2d, scatter and plot through every resolved callee: no store, del, in-place operator or mutating method reaches an object that may alias a caller's argument (ax/fig and the matplotlib norm autoscaling are named exemptions); tuples, zip/enumerate/items keep positions apart; (R2) parse_layer, Layer.update, Layer.copy and the component views interpreted over {unset, falsy, set} x {unset, set} for every option field jointly and one field at a time: layer value wins unless None, extra options merged, result distinct with its own dictionaries; get_norm over norm kinds; every entry point hands each call-level option to parse_layer under its own name (dependence analysis D4 into parse_layer's parameters); (R3) no module-level mutable state of plot/ or core/layer.py is written; (R4) a call-level option (incl. **kwargs) reaches library calls and comparisons only through the merged layer (D4 with relabelling at parse_layer). (R5) the effective option of a layer acts on that layer only: histogram2d and map folded with layers whose effective operations / colour options differ, and with the same Layer objects in two calls. R2 also sets every option to every word the plotting code tests options against (a Layer that explicitly chooses the default keeps it)."
NOT_DECIDED = 'what matplotlib draws; equality of the returned data as numbers (follows from R1/R3 + determinism of the kernels)'
TRUSTED = ('CPython ast', 'catalogue of mutating methods (sa/origin.py)', "library objects' non-catalogued methods do not mutate their receiver", 'the interpreter sa/models.py (ModelEval) and its library models')
TECHNIQUE = 'static analysis: interprocedural provenance (may-alias-a-parameter) and dependence analyses over the resolved call graph; abstract interpretation of the option-merging code'

ENTRIES = ["plot/map.py::map", "plot/histogram1d.py::histogram1d", "plot/histogram2d.py::histogram2d",
           "plot/scatter.py::scatter", "plot/plot.py::plot"]
# one named symbol each, with the reason
EXEMPT_SITES = {
    ("plot/wrappers.py::streamplot", "default_args['norm'].vmin = default_args['color'].min()"):
        "matplotlib norm object: autoscaled exactly as matplotlib itself does when vmin is None",
    ("plot/wrappers.py::streamplot", "default_args['norm'].vmax = default_args['color'].max()"):
        "matplotlib norm object: autoscaled exactly as matplotlib itself does when vmax is None",
}
OPTION_FIELDS = ["mode", "operation", "norm", "vmin", "vmax", "bins", "weights"]


def r1_immutability(run, tree):
    run.rule("C19.R1", "argument immutability from the five plot entry points", "D3 provenance, interprocedural", "",
             floor=5)
    for q in ENTRIES:
        fi = tree.func(q)
        an = OriginAnalysis(tree, exempt_params=("ax", "fig"), exempt_sites=EXEMPT_SITES)
        findings = an.analyse_entry(fi)
        run.analysed(fi)
        for fq in an.functions_seen:
            run.functions.add(fq)
        run.call_sites += an.call_sites
        for f in findings:
            run.violated("%s::%s::%s" % (f.fi.qual, f.what, norm(f.node)[:120]), f.fi.where(f.node),
                         "reached from %s via %s: the statement stores through / mutates an object that may alias the "
                         "caller's argument(s) %s" % (q, " -> ".join(c.split("::")[1] for c in f.chain), f.params),
                         "the caller's %s is different after the call; a second call sharing the object sees the leftovers" % (
                             ", ".join(f.params)))
        run.holds("%s::no-store-through-arguments" % q, fi.where(),
                  "%d functions, %d call sites analysed, %d mutation sites on caller-owned objects" % (
                      len(an.functions_seen), an.call_sites, len(findings))) if not findings else None
    run.assume("exempt: ax, fig (drawing targets by contract); wrappers.streamplot autoscaling of a matplotlib norm object")


def check_wrappers_pure(run, tree):
    """Every drawing wrapper of plot/wrappers.py (and render, for the coordinate and data arrays it is handed) leaves the arrays it draws
    alone: what map()/histogram2d() return in Plot.layers is the very array that was drawn."""
    mi = tree.module("plot/wrappers.py")
    n = 0
    for name, fi in sorted(mi.functions.items()):
        pnames = [a.arg for a in fi.node.args.args]
        if not ({"x", "y", "z"} <= set(pnames)):
            continue
        n += 1
        an = OriginAnalysis(tree, exempt_params=("ax", "fig"), exempt_sites=EXEMPT_SITES)
        findings = an.analyse_entry(fi)
        run.analysed(fi)
        for f in findings:
            run.violated("%s::%s::%s" % (f.fi.qual, f.what, norm(f.node)[:120]), f.fi.where(f.node),
                         "the drawing wrapper %s modifies an object that may be its argument(s) %s - the arrays of the result that the plot function returns" % (name, f.params),
                         "pixels / bins of the returned layer are masked or rewritten by the act of drawing it (plot=True changes the data)")
        if not findings:
            run.holds("%s::draws-without-modifying-its-arrays" % fi.qual, fi.where(), "%d functions, %d call sites analysed, no mutation of an argument" % (
                len(an.functions_seen), an.call_sites))
    if n == 0:
        run.unresolved("plot/wrappers.py::drawing-wrappers", "src/osyris/plot/wrappers.py", "no drawing wrapper with (x, y, z) parameters found")


# ------------------------------------------------------------------------------------------ R2 precedence
def option_flow(tree, q):
    """D4 on an entry point: what reaches parse_layer's parameters, and where call-level options are used raw.  Labels that
    come back out of parse_layer are renamed 'merged:<label>', so a later use of the merged layer is not a raw use."""
    fi = tree.func(q)
    pl = tree.func("plot/parser.py::parse_layer")
    an = DepAnalysis(tree)
    opts = set(OPTION_FIELDS) | ({fi.node.args.kwarg.arg} if fi.node.args.kwarg is not None else set())
    an.relabel = {pl.qual: (lambda x: "merged:" + x if x.split("[")[0].split(".")[0] in opts else x)}
    an.analyse(fi)
    return fi, pl, an


def r2_precedence(run, tree):
    run.rule("C19.R2", "precedence: layer-level options win (parse_layer, Layer.update, Layer.copy and the component views folded over "
             "{unset, falsy, set} x {unset, set}); every entry point hands each call-level option to parse_layer under its own name",
             "D7 fold of the Layer class + D4 dependence into parse_layer's parameters", "", floor=40)
    lf.check_merge_fold(run, tree, "plot/parser.py::parse_layer", in_place=False)
    lf.check_merge_fold(run, tree, "core/layer.py::Layer.update", in_place=True)
    lf.check_layer_copies(run, tree)
    lf.check_get_norm(run, tree)
    for q in ENTRIES[:3]:
        fi, pl, an = option_flow(tree, q)
        run.analysed(fi)
        fparams = {a.arg for a in fi.node.args.args + fi.node.args.kwonlyargs}
        binds = an.bindings.get(pl.qual, [])
        if not binds:
            run.violated("%s::parse_layer-call" % q, fi.where(), "the entry point no longer merges options with parse_layer",
                         "layer-level options are ignored")
            continue
        plkw = pl.node.args.kwarg.arg if pl.node.args.kwarg is not None else None
        for f in OPTION_FIELDS:
            if f not in fparams:
                continue
            got = set()
            for b in binds:
                got |= {x.split("[")[0].split(".")[0] for x in clean(b.get(f, frozenset()))} & set(OPTION_FIELDS)
                if b.get(f) is None or not clean(b.get(f, frozenset())):
                    got |= {"<nothing>"}
            run.ob("%s::parse_layer-call::forwarding[%s]" % (q, f), got == {f}, fi.where(),
                   "parse_layer's %s receives the call-level option(s) %s" % (f, sorted(got)),
                   "the call-level vmin is used as vmax (or an option never reaches the layers)")
        if fi.node.args.kwarg is not None and plkw is not None:
            kw = fi.node.args.kwarg.arg
            ok = all(kw in {x.split("[")[0] for x in clean(b.get(plkw, frozenset()))} for b in binds)
            run.ob("%s::parse_layer-call::forwarding[**%s]" % (q, kw), ok, fi.where(), "extra keyword options %s parse_layer" % (
                "reach" if ok else "do NOT reach"), "cmap=..., cbar=... given to the call are ignored")


def r3_hidden_state(run, tree):
    run.rule("C19.R3", "no hidden state: no module-level mutable object of plot/ or core/layer.py is written", "effect rule", "",
             floor=1)
    n = 0
    for mi in tree.modules.values():
        if not (mi.rel.startswith("plot/") or mi.rel in ("core/layer.py", "core/plot.py")):
            continue
        n += 1
        for fi in list(mi.functions.values()) + [m for c in mi.classes.values() for m in c.methods.values()]:
            for node in walk_no_nested(fi.node):
                if isinstance(node, (ast.Global, ast.Nonlocal)):
                    run.violated("%s::global-statement" % fi.qual, fi.where(node), "`%s`" % norm(node),
                                 "a second identical call returns different data")
        mutable_globals = [name for name, v in mi.assigns.items() if isinstance(v, (ast.Dict, ast.List, ast.Set, ast.ListComp))
                           and name != "__all__"]
        for g in mutable_globals:
            written = False
            for fi in tree.all_functions():
                for node in walk_no_nested(fi.node):
                    if isinstance(node, (ast.Subscript, ast.Attribute)) and isinstance(node.ctx, (ast.Store, ast.Del)) and \
                            isinstance(node.value, ast.Name) and node.value.id == g and fi.module.rel == mi.rel:
                        written = True
                    if isinstance(node, ast.Call) and isinstance(node.func, ast.Attribute) and is_name(node.func.value, g) and \
                            fi.module.rel == mi.rel and node.func.attr in ("append", "update", "pop", "clear", "setdefault", "extend"):
                        written = True
            run.ob("%s::module-level-mutable[%s]" % (mi.rel, g), not written, "src/osyris/" + mi.rel,
                   "module-level %s is %s" % (g, "written by a function" if written else "never written"),
                   "results depend on earlier calls")
    run.holds("plot/*::no-global-statements", "src/osyris/plot", "%d modules scanned" % n, nontrivial=False)


def r4_no_bypass(run, tree):
    run.rule("C19.R4", "merged options are not bypassed: a call-level option reaches library calls and comparisons only through the "
             "merged layer", "D4 dependence with relabelling at parse_layer", "", floor=12)
    BUILDERS = {"dict", "list", "tuple", "set", "isinstance", "len"}
    for q in ENTRIES[:3]:
        fi, pl, an = option_flow(tree, q)
        fparams = {a.arg for a in fi.node.args.args + fi.node.args.kwonlyargs}
        for opt in [f for f in OPTION_FIELDS if f in fparams] + ([fi.node.args.kwarg.arg] if fi.node.args.kwarg is not None else []):
            uses = []
            for cfi, node, labels, stack in an.lib_calls:
                if isinstance(node.func, ast.Name) and node.func.id in BUILDERS:
                    continue
                if any(x == pl.qual or x.startswith("core/layer.py::Layer.") for x in stack):
                    continue  # inside the merge itself
                if opt in {x.split("[")[0].split(".")[0] for x in clean(labels)}:
                    uses.append((cfi, node))
            for (line, text), (l, r) in an.compare_sides.items():
                if any(x == pl.qual or x.startswith("core/layer.py::Layer.") for x in an.compare_where[(line, text)][1]):
                    continue
                if opt in {x.split("[")[0].split(".")[0] for x in clean(l) | clean(r)}:
                    uses.append((None, "%s (line %s)" % (text, line)))
            where = uses[0][0].where(uses[0][1]) if uses and uses[0][0] is not None else fi.where()
            run.ob("%s::option[%s]::only-through-merged-layer" % (q, opt), not uses, where,
                   "call-level `%s` is %s" % (opt, "also used without the layer's own value: %s" % [norm(u[1])[:60] if u[0] is not None else u[1] for u in uses[:3]]
                                              if uses else "used only through the merged layers"),
                   "a Layer that sets %s is processed with the call-level value instead (e.g. a thick map reduces a layer "
                   "with operation='mean' using the default 'sum')" % opt)


def r5_per_layer_effect(run, tree):
    run.rule("C19.R5", "the effective option of a layer acts on that layer only, end to end: histogram2d and map folded with layers whose "
             "effective operations differ (layer-level against call-level, mean next to sum): 'mean' divides exactly the slots of the layers "
             "that ask for it; a Layer reused by a second call with another call-level operation is processed by each call's own", "D7 folds of plot/histogram2d.py::histogram2d and plot/map.py::map", "", floor=7)
    from . import hist_folds as hf
    from . import map_folds as mf
    hf.check_hist2d(run, tree, aspects=("layers",))
    hf.check_hist2d_history(run, tree)
    hf.check_hist2d_layer_options(run, tree)
    mf.check_map(run, tree, aspects=("rendered",))
    mf.check_map_history(run, tree)


def r6_wrappers_pure(run, tree):
    run.rule("C19.R6", "the drawing wrappers do not modify the arrays they are handed (shared with C03.R12 / C05.R8)", "D3 provenance from every wrapper with (x, y, z) parameters", "", floor=6)
    check_wrappers_pure(run, tree)


RULES = [r6_wrappers_pure, r1_immutability, r2_precedence, r3_hidden_state, r4_no_bypass, r5_per_layer_effect]


def t_map_space(run, tree):
    run.rule("C19.T1", "thorough: the per-layer effect of the reduction operation in map() over every ordered pair of layer operations, thin and thick", "D7 fold of plot/map.py::map", "", floor=50)
    from . import map_folds as mf
    mf.check_map(run, tree, aspects=("rendered", "inputs"), scenarios=mf.thorough_scenarios())


THOROUGH_RULES = [t_map_space]
