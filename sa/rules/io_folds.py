"""Finite-case folds (ModelEval) of the non-binary parts of the RAMSES reader: vector assembly, per-variable selection
records, level cap, reader initialisation histories and file names, the sink csv parser."""
from __future__ import annotations

from ..models import ModelEval, Marker, Raised, PyObj
from ..peval import Model, Unsupported, ProgramRaised
from ..source import AnalysisError
from ..symnp import Sym, origin_of
from .core_models import UnitTok
from .layout_folds import UnitQ

ERR = (Unsupported, AnalysisError)
READER = "io/reader.py::Reader"


class VecTok(Model):
    kinds = ("Vector", "Base")

    def __init__(self, *a, **comps):
        self.comps = comps

    def __eq__(self, o):
        return isinstance(o, VecTok) and self.comps == o.comps

    def __hash__(self):
        return 0

    def __repr__(self):
        return "Vector(%s)" % ", ".join("%s=%s" % kv for kv in self.comps.items())


def V(**kw):
    return VecTok(**kw)


VEC_CASES = [
    ("3-D velocity + scalars", 3, ["density", "velocity_x", "velocity_y", "velocity_z", "pressure"],
     {"density": "density", "pressure": "pressure", "velocity": V(x="velocity_x", y="velocity_y", z="velocity_z")}),
    ("infix components", 3, ["B_x_left", "B_y_left", "B_z_left", "B_x_right", "B_y_right", "B_z_right"],
     {"B_left": V(x="B_x_left", y="B_y_left", z="B_z_left"), "B_right": V(x="B_x_right", y="B_y_right", z="B_z_right")}),
    ("bare x,y,z -> position", 3, ["x", "y", "z", "mass"], {"position": V(x="x", y="y", z="z"), "mass": "mass"}),
    ("incomplete component set stays scalar", 3, ["velocity_x", "velocity_y", "density"],
     {"velocity_x": "velocity_x", "velocity_y": "velocity_y", "density": "density"}),
    ("2-D", 2, ["velocity_x", "velocity_y", "density"], {"velocity": V(x="velocity_x", y="velocity_y"), "density": "density"}),
    ("2-D with a stray z component", 2, ["velocity_x", "velocity_y", "velocity_z"],
     {"velocity": V(x="velocity_x", y="velocity_y"), "velocity_z": "velocity_z"}),
    ("1-D: nothing merged", 1, ["velocity_x", "density"], {"velocity_x": "velocity_x", "density": "density"}),
    ("name containing an earlier x", 3, ["photon_flux_x", "photon_flux_y", "photon_flux_z", "xenon"],
     {"photon_flux": V(x="photon_flux_x", y="photon_flux_y", z="photon_flux_z"), "xenon": "xenon"}),
    ("name containing a later x", 3, ["accel_x_ext", "accel_y_ext", "accel_z_ext", "density"],
     {"accel_ext": V(x="accel_x_ext", y="accel_y_ext", z="accel_z_ext"), "density": "density"}),
    ("2-D, name with a later x", 2, ["photon_flux_x_max", "photon_flux_y_max"], {"photon_flux_max": V(x="photon_flux_x_max", y="photon_flux_y_max")}),
    ("position components + level", 3, ["position_x", "position_y", "position_z", "level", "dx"],
     {"position": V(x="position_x", y="position_y", z="position_z"), "level": "level", "dx": "dx"}),
    ("x-named scalar with no partners", 3, ["max_x", "density"], {"max_x": "max_x", "density": "density"}),
]


def check_vector_assembly(run, tree):
    fi = tree.func("io/utils.py::make_vector_arrays")
    run.analysed(fi)
    hooks = {"class": {"core/vector.py::Vector": VecTok}}
    for label, ndim, keys, want in VEC_CASES:
        data = {k: k for k in keys}
        construct = "io/utils.py::make_vector_arrays[%s]" % label
        try:
            try:
                ModelEval(tree, fi, {}, hooks).invoke(fi, [data, ndim], {}, None)
            except (Raised, ProgramRaised) as e:
                run.violated(construct, fi.where(), "raises %s" % e, "loading a variable set like %s raises" % keys)
                continue
            run.ob(construct, data == want, fi.where(), "%s (ndim=%d) -> %s%s" % (keys, ndim, data, "" if data == want else "; required %s" % want),
                   "a variable set like %s: components not merged / merged wrongly / a variable lost or renamed" % keys)
        except ERR as e:
            run.unresolved(construct, fi.where(), "cannot fold: %s" % e)


class Units(Model):
    def __getitem__(self, k):
        return UnitQ(k)


def check_descriptor_to_variables(run, tree):
    ci = tree.cls(READER)
    fi = tree.method(ci, "descriptor_to_variables")
    run.analysed(fi)
    f = Sym("PREDICATE")
    cases = [
        ("dict listing a predicate", {"a": f}, {"a": True, "b": True}),
        ("dict switching a variable off", {"a": False}, {"a": False, "b": True}),
        ("True", True, {"a": True, "b": True}),
        ("False", False, {"a": False, "b": False}),
        ("list of names", ["a"], {"a": True, "b": False}),
        ("empty dict", {}, {"a": True, "b": True}),
    ]
    for label, select, want in cases:
        construct = "%s.descriptor_to_variables[select=%s]" % (READER, label)
        try:
            ev = ModelEval(tree, tree.method(ci, "__init__"), {}, {})
            r = ev.instantiate(ci, [], {}, None)
            try:
                # a first load selected everything and left pieces behind; then the load under test
                ev.invoke(fi, [r, {"a": "d", "b": "i"}, {}, Units(), True], {}, None)
                old = {k: v for k, v in r._attrs["variables"].items()}
                for k, v in old.items():
                    v["pieces"][1] = "piece of the previous load"
                    v["buffer"] = "buffer of the previous load"
                ev.invoke(fi, [r, {"a": "d", "b": "i"}, {}, Units(), select], {}, None)
            except (Raised, ProgramRaised) as e:
                run.violated(construct, fi.where(), "raises %s" % e, "select given as %s" % label)
                continue
            vs = r._attrs["variables"]
            got = {k: (vs[k]["read"] is not False and vs[k]["read"] is not None and bool(vs[k]["read"]) if not isinstance(vs[k]["read"], Sym) else True) for k in ("a", "b")}
            problems = []
            if got != want:
                problems.append("read flags %s (required %s)" % ({k: vs[k]["read"] for k in ("a", "b")}, want))
            for k in ("a", "b"):
                if vs[k].get("pieces") != {}:
                    problems.append("variable %s still holds the pieces of the previous load: %s" % (k, vs[k].get("pieces")))
                if vs[k].get("type") != {"a": "d", "b": "i"}[k] or not (isinstance(vs[k].get("unit"), UnitQ) and vs[k]["unit"].key == k):
                    problems.append("record of %s: type %r unit %r" % (k, vs[k].get("type"), vs[k].get("unit")))
            run.ob(construct, not problems, fi.where(), "; ".join(problems[:2]) or "read flags %s; fresh records (no pieces of an earlier load), own type and unit" % want,
                   "selection given as %s loads the wrong set of variables; a second load on the same dataset concatenates the rows of the first" % label)
        except ERR as e:
            run.unresolved(construct, fi.where(), "cannot fold: %s" % e)


# =============================================================================== level cap
class NpList(Model):
    """1-d integer/bool ndarray with concrete (small) contents: the domain of levels 1..levelmax"""
    kinds = ("ndarray",)

    def __init__(self, data):
        self.data = list(data)

    def ravel(self):
        return NpList([x[0] if isinstance(x, (list, tuple)) else x for x in self.data])

    flatten = ravel

    def max(self):
        if not self.data:
            raise Raised("ValueError", None, "zero-size array to reduction operation maximum")
        return max(self.data)

    def min(self):
        if not self.data:
            raise Raised("ValueError", None, "zero-size array to reduction operation minimum")
        return min(self.data)

    def sum(self):
        return sum(self.data)

    def any(self):
        return any(self.data)

    def astype(self, t, *a, **k):
        if isinstance(t, Marker) and t.kind == "type" and t.data[0] is bool or t == "bool":
            return NpList([bool(x) for x in self.data])
        return NpList([int(x) for x in self.data])

    def __getitem__(self, i):
        if isinstance(i, NpList):
            if i.data and isinstance(i.data[0], bool):
                return NpList([x for x, m in zip(self.data, i.data) if m])
            return NpList([self.data[j] for j in i.data])
        if isinstance(i, slice):
            return NpList(self.data[i])
        try:
            return self.data[i]
        except IndexError as e:
            raise Raised("IndexError", None, str(e))

    def __len__(self):
        return len(self.data)

    def __iter__(self):
        return iter(self.data)

    def _cmp(self, o, f):
        return NpList([f(x, o) for x in self.data])

    def __le__(self, o):
        return self._cmp(o, lambda a, b: a <= b)

    def __lt__(self, o):
        return self._cmp(o, lambda a, b: a < b)

    def __ge__(self, o):
        return self._cmp(o, lambda a, b: a >= b)

    def __gt__(self, o):
        return self._cmp(o, lambda a, b: a > b)

    def __eq__(self, o):
        return self._cmp(o, lambda a, b: a == b)

    def __ne__(self, o):
        return self._cmp(o, lambda a, b: a != b)

    __hash__ = None

    def __and__(self, o):
        return NpList([bool(a) and bool(b) for a, b in zip(self.data, o.data)])

    def __or__(self, o):
        return NpList([bool(a) or bool(b) for a, b in zip(self.data, o.data)])

    def __invert__(self):
        return NpList([not a for a in self.data])


def nplist_hooks():
    nz = lambda x: NpList([i for i, v in enumerate(x.data) if v])
    return {"ext": {
        "numpy.arange": lambda a, b=None, *r, **k: NpList(range(a, b) if b is not None else range(a)),
        "numpy.argwhere": lambda x: NpList([[i] for i, v in enumerate(x.data) if v]),
        "numpy.where": lambda x: (nz(x),), "numpy.nonzero": lambda x: (nz(x),), "numpy.flatnonzero": nz,
        "numpy.count_nonzero": lambda x: sum(1 for v in x.data if v), "numpy.sum": lambda x: sum(x.data),
        "numpy.max": lambda x: x.max(), "numpy.amax": lambda x: x.max(), "numpy.min": lambda x: x.min(), "numpy.any": lambda x: any(x.data),
        "numpy.asarray": lambda x, *a, **k: x if not k.get("dtype") else x.astype(k["dtype"]), "numpy.array": lambda x, *a, **k: x,
    }, "builtins": {"int": lambda x, *a: int(x)}}


def check_find_max_level(run, tree):
    fi = tree.func("io/utils.py::find_max_amr_level")
    run.analysed(fi)
    cases = [("l <= 3", lambda l: l <= 3, 3), ("l < 3", lambda l: l < 3, 2), ("2 <= l < 5", lambda l: (l >= 2) & (l < 5), 4),
             ("l == 3", lambda l: l == 3, 3), ("l >= 2", lambda l: l >= 2, 6), ("every level", lambda l: l >= 1, 6), ("l == 1", lambda l: l == 1, 1)]
    for label, pred, want in cases:
        construct = "io/utils.py::find_max_amr_level[%s]" % label
        try:
            try:
                got = ModelEval(tree, fi, {}, nplist_hooks()).invoke(fi, [], {"levelmax": 6, "select": {"level": pred}}, None)
            except (Raised, ProgramRaised) as e:
                run.violated(construct, fi.where(), "raises %s" % e, "a level predicate such as %s" % label)
                continue
            run.ob(construct, got == want and not isinstance(got, bool), fi.where(), "levelmax=6, predicate %s -> %r (required %d: the highest accepted level)" % (label, got, want),
                   "a level predicate such as %s truncates the tree at the wrong level" % label)
        except ERR as e:
            run.unresolved(construct, fi.where(), "cannot fold on the list model: %s" % e)


# =============================================================================== reader initialisation histories and file names
class Table(Model):
    """what np.loadtxt(fname, dtype=str, delimiter=',') returns for a *_file_descriptor.txt"""
    kinds = ("ndarray",)

    def __init__(self, rows):
        self.rows = rows

    def __len__(self):
        return len(self.rows)

    def __getitem__(self, idx):
        if isinstance(idx, tuple) and len(idx) == 2 and isinstance(idx[0], int) and isinstance(idx[1], int):
            return self.rows[idx[0]][idx[1]]
        if isinstance(idx, int):
            return list(self.rows[idx])
        if isinstance(idx, tuple) and len(idx) == 2 and isinstance(idx[0], slice) and isinstance(idx[1], int):
            return [r[idx[1]] for r in self.rows[idx[0]]]
        if isinstance(idx, tuple) and len(idx) == 2 and isinstance(idx[0], slice) and isinstance(idx[1], slice):
            return Table([tuple(r[idx[1]]) for r in self.rows[idx[0]]])
        if isinstance(idx, slice):
            return Table(self.rows[idx])
        if isinstance(idx, (list, tuple)) and all(isinstance(i, int) and not isinstance(i, bool) for i in idx):
            return Table([self.rows[i] for i in idx])          # fancy indexing with a list of row numbers (e.g. the result of argsort)
        raise Unsupported("descriptor table indexed with %r" % (idx,))

    def __iter__(self):
        return iter([list(r) for r in self.rows])

    @property
    def shape(self):
        return (len(self.rows), 3)


# the hydro descriptor has more than 9 variables and its ivar column is NOT padded ("9", "10", "11"): the variables are stored in the order of
# the lines (= numeric order of ivar); ordering the lines by the ivar TEXT would read "10" and "11" before "2"
DESCRIPTORS = {"hydro": [("1", " density", " d"), ("2", " velocity_x", " d"), ("3", " pressure ", " d")] + [(str(i), " scalar_%02d" % i, " d") for i in range(4, 12)],
               "part": [("1", " position_x", " d"), ("2", " identity", " i"), ("3", " family", " b")],
               "rt": [("1", " photon_density_1", " d"), ("2", " photon_flux_1_x", " d")]}
READERS = {"amr": "io/amr.py::AmrReader", "hydro": "io/hydro.py::HydroReader", "grav": "io/grav.py::GravReader", "rt": "io/rt.py::RtReader",
           "part": "io/part.py::PartReader"}


def init_hooks(log, files_present=True, nout=7):
    """file system and numpy models for reader.initialize; `log` records every path the reader looks at"""
    import os.path as osp

    def exists(p):
        log.append(("exists", p))
        return files_present

    def loadtxt(fname, *a, **k):
        log.append(("loadtxt", fname))
        if not files_present:
            raise Raised("IOError", None, "%s not found" % fname)
        for key, rows in DESCRIPTORS.items():
            if isinstance(fname, str) and osp.basename(fname) == key + "_file_descriptor.txt":
                return Table(rows)
        raise Raised("IOError", None, "%s not found" % (fname,))

    def hilbert(**kw):
        log.append(("hilbert_cpu_list", kw))
        return ["CPULIST", len([x for x in log if x[0] == "hilbert_cpu_list"])]
    return {"ext": {"os.path.exists": exists, "os.path.join": osp.join, "os.path.basename": osp.basename, "numpy.loadtxt": loadtxt,
                    "numpy.genfromtxt": loadtxt, "numpy.zeros": lambda *a, **k: Sym(("zeros",)), "numpy.float64": "float64",
                    "numpy.argsort": lambda x, *a, **k: sorted(range(len(x)), key=lambda i: x[i]) if isinstance(x, list) and all(isinstance(v, (str, int, float)) for v in x) else (_ for _ in ()).throw(Unsupported("np.argsort(%r)" % (x,))),
                    "glob.glob": lambda pat: ["PATH/output_00007", "PATH/output_00003"] if pat == osp.join("PATH", "output*") else []},
            "pkgfunc": {"io/hilbert.py::hilbert_cpu_list": hilbert}, "class": {}, "globals": {}}


def check_reader_initialize(run, tree):
    for name, cq in READERS.items():
        ci = tree.cls(cq)
        init = tree.method(ci, "initialize")
        run.analysed(init)
        for nout, label in ((7, "explicit output number"), (-1, "latest output (nout=-1)")):
            construct = "%s.initialize[%s]" % (cq, label)
            try:
                problems = []
                # ---- history: (1) load with the group on, (2) group switched off, (3) on again but the files are gone
                log = []
                hooks = init_hooks(log, True, nout)
                ev = ModelEval(tree, tree.method(ci, "__init__"), {}, hooks)
                r = ev.instantiate(ci, [], {}, None)
                meta = {"nout": nout, "path": "PATH", "infile": "PATH/output_00007", "infofile": "PATH/output_00007/info_00007.txt", "ndim": 2, "ncpu": 4,
                        "levelmax": 5}
                try:
                    ret = ev.invoke(init, [r, meta, Units(), {}], {}, None)
                except (Raised, ProgramRaised) as e:
                    run.violated(construct, init.where(), "raises %s" % e, "loading with the group switched on")
                    continue
                if r._attrs.get("initialized") is not True:
                    problems.append("with its files present and the group selected the reader is not initialised")
                if ret is not None:
                    problems.append("initialize returns %r" % (ret,))
                want_vars = {"amr": ["level", "cpu", "dx", "position_x", "position_y"], "grav": ["grav_potential", "grav_acceleration_x", "grav_acceleration_y"],
                             "hydro": ["density", "velocity_x", "pressure"] + ["scalar_%02d" % i for i in range(4, 12)], "part": ["position_x", "identity", "family"], "rt": ["photon_density_1", "photon_flux_1_x"]}[name]
                vs = r._attrs.get("variables", {})
                if sorted(vs) != sorted(want_vars):
                    problems.append("variables %s (required %s)" % (sorted(vs), sorted(want_vars)))
                elif name in DESCRIPTORS and list(vs) != want_vars:
                    problems.append("variables in the order %s (required the order of the descriptor lines, which is the order of the records in the files: %s)" % (list(vs), want_vars))
                elif name in DESCRIPTORS and [vs[k]["type"] for k in want_vars] != [row[2].strip() for row in DESCRIPTORS[name]]:
                    problems.append("variable types %s" % [vs[k]["type"] for k in want_vars])
                want_path = {"grav": ("exists", "PATH/output_00007/grav_00007.out00001"), "hydro": ("loadtxt", "PATH/output_00007/hydro_file_descriptor.txt"),
                             "part": ("loadtxt", "PATH/output_00007/part_file_descriptor.txt"), "rt": ("loadtxt", "PATH/output_00007/rt_file_descriptor.txt")}.get(name)
                looked = [x for x in log if x[0] in ("exists", "loadtxt")]
                if want_path is not None and looked != [want_path]:
                    problems.append("the reader looks at %s (required %s %s)" % (looked, want_path[0], want_path[1]))
                if name == "amr":
                    h = [x for x in log if x[0] == "hilbert_cpu_list"]
                    if len(h) != 1 or r._attrs.get("cpu_list") != ["CPULIST", 1]:
                        problems.append("cpu_list = %r after %d pre-selections" % (r._attrs.get("cpu_list"), len(h)))
                    else:
                        kw = h[0][1]
                        if kw.get("meta") is not meta or kw.get("select") != {} or not (isinstance(kw.get("scaling"), UnitQ) and kw["scaling"].key == "x") or \
                                kw.get("infofile") != meta["infofile"]:
                            problems.append("hilbert_cpu_list called with %s" % {k: (v if k != "meta" else "meta") for k, v in kw.items()})
                # (2) switched off
                ret = ev.invoke(init, [r, meta, Units(), False], {}, None)
                if r._attrs.get("initialized") is not False or ret is not None:
                    problems.append("after a load with the group switched off the reader is still initialised (its files are read again)")
                if name == "amr" and r._attrs.get("cpu_list") is not None:
                    problems.append("after a load with the group switched off the AMR reader keeps the cpu_list of the EARLIER load: %r" % (r._attrs.get("cpu_list"),))
                # (3) selected again, files gone
                ev.invoke(init, [r, meta, Units(), True], {}, None)
                if name != "amr":
                    log2 = []
                    hooks2 = init_hooks(log2, False, nout)
                    ev2 = ModelEval(tree, init, {}, hooks2)
                    try:
                        ev2.invoke(init, [r, meta, Units(), True], {}, None)
                        if r._attrs.get("initialized") is not False:
                            problems.append("with its files missing the reader counts as initialised")
                    except (Raised, ProgramRaised) as e:
                        problems.append("with its files missing initialize raises %s" % e)
                run.ob(construct, not problems, init.where(), "; ".join(problems[:3]) or
                       "on / off / on-without-files history: initialised exactly when selected and present; variables from the descriptor; file looked up under the resolved output directory",
                       "a group switched off after a load that had it on is read again; gravity files of the latest output (nout=-1) are not found; a stale cpu list is reused")
            except ERR as e:
                run.unresolved(construct, init.where(), "cannot fold: %s" % e)


# =============================================================================== sink csv
SINK = "io/sink.py::SinkReader"


class CodeQ(Model):
    """a unit quantity in the sink header's little language: m, l, t and their products / powers; or a physical unit"""
    kinds = ("Quantity",)

    def __init__(self, mono):
        self.mono = {k: v for k, v in mono.items() if v}
        key = tuple(sorted(self.mono.items()))
        self.magnitude = Sym(("magnitude", key))
        self.units = UnitTok(("units", key))
        self.m, self.u = self.magnitude, self.units

    def __mul__(self, o):
        if isinstance(o, CodeQ):
            d = dict(self.mono)
            for k, v in o.mono.items():
                d[k] = d.get(k, 0) + v
            return CodeQ(d)
        if isinstance(o, (int, float)) and o == 1:
            return self
        raise Unsupported("unit arithmetic %r * %r" % (self, o))

    __rmul__ = __mul__

    def __truediv__(self, o):
        if isinstance(o, CodeQ):
            d = dict(self.mono)
            for k, v in o.mono.items():
                d[k] = d.get(k, 0) - v
            return CodeQ(d)
        raise Unsupported("unit arithmetic")

    def __pow__(self, n):
        return CodeQ({k: v * n for k, v in self.mono.items()})


class CodeUnits(Model):
    def __init__(self, tag=""):
        self.tag = tag

    def __getitem__(self, k):
        return CodeQ({"code:" + k + self.tag: 1})


class PhysUnit(Model):
    """units('<name>') of the package registry"""

    def __init__(self, name):
        self.name = name

    def __rmul__(self, k):
        if k == 1.0:
            return CodeQ({"phys:" + self.name: 1})
        raise Unsupported("%r * unit" % (k,))

    __mul__ = __rmul__


class SinkData(Model):
    """the numeric table of a sink csv as numpy hands it over: axes name what each dimension runs over ("row" = sinks, "col" = csv columns,
    "one" = the unit axis np.atleast_2d puts in front of a 1-d array).  A file with ONE sink is read as a 1-d array of its columns."""
    kinds = ("ndarray",)

    def __init__(self, axes=("row", "col"), ncols=5):
        self.axes, self.ncols = tuple(axes), ncols

    @property
    def T(self):
        return SinkData(self.axes[::-1], self.ncols)

    @property
    def ndim(self):
        return len(self.axes)

    def _along(self, axis_name, i):
        if axis_name == "col":
            return Sym(("column", i))
        raise Unsupported("sink table: element %r along the %s axis stands for no single csv column" % (i, {"row": "sink", "one": "unit"}.get(axis_name, axis_name)))

    def __getitem__(self, idx):
        if isinstance(idx, tuple) and len(idx) == 2 and isinstance(idx[0], slice) and idx[0] == slice(None) and isinstance(idx[1], int) and len(self.axes) == 2:
            if self.axes[1] == "col":
                return Sym(("column", idx[1]))
            return Sym(("not-a-column", self.axes, idx[1]))
        if isinstance(idx, int):
            if self.axes[0] == "col":
                return Sym(("column", idx))
            return Sym(("not-a-column", self.axes, idx))
        if isinstance(idx, tuple) and len(idx) > len(self.axes):
            raise Raised("IndexError", None, "too many indices for array: array is %d-dimensional, but %d were indexed" % (len(self.axes), len(idx)))
        raise Unsupported("sink table indexed with %r" % (idx,))

    def __iter__(self):
        if self.axes[0] == "col":
            return iter([Sym(("column", i)) for i in range(self.ncols)])
        n = 1 if self.axes[0] == "one" else 3
        return iter([Sym(("not-a-column", self.axes, j)) for j in range(n)])

    def __len__(self):
        return self.ncols if self.axes[0] == "col" else (1 if self.axes[0] == "one" else 3)


class TextFile(Model):
    def __init__(self, lines):
        self.lines = list(lines)
        self.i = 0

    def readline(self):
        self.i += 1
        return self.lines[self.i - 1] if self.i <= len(self.lines) else ""

    def readlines(self):
        out = self.lines[self.i:]
        self.i = len(self.lines)
        return out

    def __iter__(self):
        return iter(self.readlines())


class SinkGroup(Model):
    kinds = ("Datagroup",)

    def __init__(self, *a, **k):
        self.items_ = {}

    def __setitem__(self, k, v):
        self.items_[k] = v

    def __getitem__(self, k):
        return self.items_[k]

    def __delitem__(self, k):
        del self.items_[k]

    def __contains__(self, k):
        return k in self.items_

    def __len__(self):
        return len(self.items_)

    def keys(self):
        return self.items_.keys()

    def items(self):
        return self.items_.items()


class SinkArr(Model):
    kinds = ("Array", "Base")

    def __init__(self, values=None, unit=None, name=""):
        self.values_, self.unit = values, unit


def sink_hooks(state):
    def loadtxt(fname, *a, **k):
        state["loadtxt"].append((fname, dict(k)))
        ncols = len(state["lines"][0].split(",")) if state.get("lines") else 5
        one = state.get("nsinks", 3) == 1
        axes = ("col",) if one else (("col", "row") if k.get("unpack") else ("row", "col"))
        return SinkData(axes, ncols)

    def atleast_2d(x):
        state["atleast_2d"] += 1
        if isinstance(x, SinkData) and len(x.axes) == 1:
            return SinkData(("one",) + x.axes, x.ncols)
        return x

    def opener(fname, mode="r", *a, **k):
        state["open"].append((fname, mode))
        return TextFile(state["lines"])
    return {"ext": {"os.path.exists": lambda p: state["paths"].append(p) or state["exists"], "os.path.getsize": lambda p: state["size"],
                    "os.path.getmtime": lambda p: 1.0, "os.path.join": __import__("os").path.join, "numpy.loadtxt": loadtxt, "numpy.atleast_2d": atleast_2d,
                    "numpy.genfromtxt": loadtxt},
            "builtins": {"open": opener},
            "class": {"core/datagroup.py::Datagroup": SinkGroup, "core/array.py::Array": SinkArr, "core/vector.py::Vector": VecTok},
            "globals": {k: (lambda name: PhysUnit(name)) for k in ("units/units.py::units", "__init__.py::units", "units/__init__.py::units",
                                                                    "units/units.py::ureg", "__init__.py::ureg", "units/__init__.py::ureg")},
            "pkgfunc": {}}


def check_sink(run, tree):
    ci = tree.cls(SINK)
    init = tree.method(ci, "initialize")
    run.analysed(init)
    meta = {"nout": 7, "path": "PATH", "infile": "PATH/output_00007", "ndim": 3}
    want_file = "PATH/output_00007/sink_00007.csv"

    def run_case(lines, exists=True, size=100, select=True, reader=None, units=None, shared=None, nsinks=3, meta=meta):
        state = {"lines": lines, "exists": exists, "size": size, "paths": [], "loadtxt": [], "open": [], "atleast_2d": 0, "nsinks": nsinks}
        hooks = sink_hooks(state)
        hooks["ext"]["glob.glob"] = lambda pat, *a, **k: ["PATH/output_00003", "PATH/output_00042"] if pat == "PATH/output*" else []
        if shared is not None:
            hooks["_module_state"] = shared        # module- and class-level objects of the package live as long as the process
        ev = ModelEval(tree, init, {}, hooks)
        if reader is None:
            reader = ModelEval(tree, tree.method(ci, "__init__"), {}, hooks).instantiate(ci, [], {}, None)
        ret = ev.invoke(init, [reader, meta, units or CodeUnits(), select], {}, None)
        return ret, state, reader
    new = [" # id,msink,x,y,z,vx,vy,vz,lx\n", " # 1,m,l,l,l,l t**-1,l t**-1,l t**-1,m l**2 t**-1\n"]
    legacy = [" # id,msink,x,y,z\n", " # 1,[Msol],[cm],[cm],[cm]\n"]
    # legacy units spelled like the code-unit letters: [m] is metres and [t] tonnes there, not the code mass and the code time
    legacy_letters = [" # id,msink,x,y,z\n", " # 1,[t],[m],[m],[m]\n"]
    # the latest output (nout=-1, what RamsesDataset(-1, path) asks for): the sink file of THAT output, named like every other file of it
    construct = "%s.initialize[latest output: nout=-1]" % SINK
    try:
        try:
            ret, st, _ = run_case(new, meta={"nout": -1, "path": "PATH", "infile": "PATH/output_00042", "ndim": 3})
            want_latest = "PATH/output_00042/sink_00042.csv"
            ok = st["paths"][:1] == [want_latest] and len(st["loadtxt"]) == 1 and st["loadtxt"][0][0] == want_latest and isinstance(ret, SinkGroup)
            run.ob(construct, ok, init.where(), "looks for %s, parses %s (required %s)" % (st["paths"][:1], [x[0] for x in st["loadtxt"]], want_latest),
                   "RamsesDataset(-1, path).load(): the sink file is looked for under a name built from the number -1 (sink_000-1.csv): the sinks are silently missing")
        except (Raised, ProgramRaised) as e:
            run.violated(construct, init.where(), "raises %s" % e, "RamsesDataset(-1, ...)")
    except ERR as e:
        run.unresolved(construct, init.where(), "cannot fold: %s" % e)
    for label, lines, nsinks in (("code-unit header", new, 3), ("legacy header with physical units", legacy, 3), ("code-unit header, a single sink", new, 1),
                                 ("legacy header, a single sink", legacy, 1), ("legacy header whose units are the words m and t", legacy_letters, 3)):
        construct = "%s.initialize[%s]" % (SINK, label)
        try:
            try:
                ret, st, _ = run_case(lines, nsinks=nsinks)
            except (Raised, ProgramRaised) as e:
                run.violated(construct, init.where(), "raises %s" % e, "a sink file with a %s" % label)
                continue
            problems = []
            if st["paths"][:1] != [want_file]:
                problems.append("looks for %s (required %s)" % (st["paths"][:1], want_file))
            if len(st["loadtxt"]) != 1 or st["loadtxt"][0][0] != want_file or st["loadtxt"][0][1].get("skiprows") != 2 or st["loadtxt"][0][1].get("delimiter") != ",":
                problems.append("table parsed with %s (required the file, comma-separated, skipping the 2 header lines)" % (st["loadtxt"],))
            if st["atleast_2d"] != 1 and nsinks != 1:
                pass        # how the table is made 2-D is the code's business: the single-sink cases decide whether every key gets its own column
            if not isinstance(ret, SinkGroup):
                problems.append("returns %r" % (ret,))
            else:
                keys = lines[0].lstrip(" #").rstrip("\n").split(",")
                toks = lines[1].lstrip(" #").rstrip("\n").split(",")

                def unit_of(tok):
                    t_ = tok.strip()
                    if t_.replace("[", "").replace("]", "") == "1":
                        return {"phys:dimensionless": 1}
                    if "[" in t_:
                        return {"phys:" + t_.replace("[", "").replace("]", ""): 1}
                    mono = {}
                    for part in t_.split():
                        base, _, e = part.partition("**")
                        nm = {"m": "code:mass", "l": "code:length", "t": "code:time"}[base]
                        mono[nm] = mono.get(nm, 0) + (int(e) if e else 1)
                    return mono
                cols = {}
                for i, (k, tk) in enumerate(zip(keys, toks)):
                    cols[k] = (i, tuple(sorted(unit_of(tk).items())))
                got = {}
                for k, v in ret.items_.items():
                    if isinstance(v, VecTok):
                        for c, a in v.comps.items():
                            got.setdefault(k, {})[c] = a
                    else:
                        got[k] = v
                want_groups = {"id": "id", "msink": "msink", "position": {"x": "x", "y": "y", "z": "z"}}
                if "vx" in cols:
                    want_groups.update({"v": {"x": "vx", "y": "vy", "z": "vz"}, "lx": "lx"})
                if sorted(got) != sorted(want_groups):
                    problems.append("members %s (required %s)" % (sorted(got), sorted(want_groups)))
                else:
                    def chk(arr, key, where):
                        i, mono = cols[key]
                        o = origin_of(arr.values_) if isinstance(arr, SinkArr) else None
                        want_o = ("*", tuple(sorted([("column", i), ("magnitude", mono)], key=repr)))
                        if o != want_o or not (isinstance(arr.unit, UnitTok) and arr.unit.name == ("units", mono)):
                            problems.append("%s = %r labelled %r (required column %d scaled by and labelled with the unit of header field %d: %s)" % (
                                where, o, getattr(getattr(arr, "unit", None), "name", None), i, i, dict(mono)))
                    for k, w in want_groups.items():
                        if isinstance(w, dict):
                            for c, src in w.items():
                                chk(got[k][c], src, "%s.%s" % (k, c))
                        else:
                            chk(got[k], w, k)
            run.ob(construct, not problems, init.where(), "; ".join(problems[:3]) or
                   "column i <-> name i <-> unit i (m, l, t = code mass, length, time; [..] = physical unit); x,y,z merged into position",
                   "a column is scaled with its neighbour's unit; legacy sink files are scaled as if in code units; the first sink is parsed as a header line")
        except ERR as e:
            run.unresolved(construct, init.where(), "cannot fold: %s" % e)
    # missing / empty / switched off / repeated loads
    construct = SINK + ".initialize[missing, empty, off, repeated]"
    try:
        problems = []
        ret, st, _ = run_case(new, exists=False)
        if ret is not None:
            problems.append("missing file -> %r (required None: no sink group)" % (ret,))
        ret, st, _ = run_case(new, size=0)
        if not (isinstance(ret, SinkGroup) and len(ret) == 0):
            problems.append("empty file -> %r (required an empty group)" % (ret,))
        ret, st, _ = run_case(new, select=False)
        if ret is not None or st["loadtxt"]:
            problems.append("group switched off -> %r, %d tables parsed" % (ret, len(st["loadtxt"])))
        for kw in (dict(size=0), dict(exists=False)):
            ret, st, _ = run_case(new, select=False, **kw)
            if ret is not None:
                problems.append("group switched off, %s -> %r (required None: an excluded group is not returned)" % ("empty file" if "size" in kw else "no file", ret))
        r1, st1, reader = run_case(new)
        r2, st2, reader = run_case(new, reader=reader)
        if r1 is r2 or (isinstance(r1, SinkGroup) and isinstance(r2, SinkGroup) and any(r1.items_.get(k) is r2.items_.get(k) for k in r1.items_)):
            problems.append("two loads return the same group object (a sort or edit made after the first load shows up in the second)")
        if len(st2["loadtxt"]) != 1:
            problems.append("the second load parses %d tables" % len(st2["loadtxt"]))
        # a second dataset with OTHER code units in the same process (its own reader; module- and class-level state persists)
        shared = {}
        run_case(new, shared=shared)
        r3, st3, _ = run_case(new, units=CodeUnits("@B"), shared=shared)
        stale = []
        for k, v in (r3.items_.items() if isinstance(r3, SinkGroup) else []):
            for a in (v.comps.values() if isinstance(v, VecTok) else [v]):
                txt = repr((origin_of(a.values_) if isinstance(a, SinkArr) else a, getattr(getattr(a, "unit", None), "name", None)))
                import re as _re
                if any(not m.endswith("@B") for m in _re.findall(r"code:\w+(?:@\w+)?", txt)):
                    stale.append(k)
        if stale:
            problems.append("a second dataset with other code units gets the FIRST dataset's unit factors for %s" % sorted(set(stale)))
        run.ob(construct, not problems, init.where(), "; ".join(problems[:3]) or "missing -> None; empty -> empty group; off -> None; every load parses the file into a new group",
               "'empty' and 'missing' are confused; a sorted sink group of an earlier load is handed out again; the sinks of a second simulation are scaled with the first one's code units")
    except (Raised, ProgramRaised) as e:
        run.violated(construct, init.where(), "raises %s" % e, "sink files")
    except ERR as e:
        run.unresolved(construct, init.where(), "cannot fold: %s" % e)


# =============================================================================== derived variables (config/defaults.py)
def check_derived_variables(run, tree):
    from .core_models import ArrTok
    from .subdomain_folds import sem, NotAMask
    from ..poly import Poly
    fi = tree.func("config/defaults.py::additional_variables")
    run.analysed(fi)

    def mesh(keys):
        return {k: ArrTok(k, {"B_left": "G", "B_right": "G", "density": "g/cm**3", "dx": "cm", "pressure": "erg/cm**3"}[k], (4,), k) for k in keys}
    cases = [("all inputs present", {"mesh": mesh(["B_left", "B_right", "density", "dx", "pressure"])}, {"B_field", "mass"}),
             ("no magnetic field", {"mesh": mesh(["density", "dx"])}, {"mass"}),
             ("no density", {"mesh": mesh(["B_left", "B_right", "dx"])}, {"B_field"}),
             ("no mesh group", {"part": {}}, set())]
    for label, data, want_new in cases:
        construct = "config/defaults.py::additional_variables[%s]" % label
        try:
            before = {g: set(v) for g, v in data.items()}
            inputs = {(g, k): (tok, tok.origin, tok.unit.name) for g, v in data.items() for k, tok in v.items()}
            try:
                ModelEval(tree, fi, {}, {}).invoke(fi, [data], {}, None)
            except (Raised, ProgramRaised) as e:
                run.violated(construct, fi.where(), "raises %s" % e, "loading an output with %s" % label)
                continue
            problems = []
            new = {k for g, v in data.items() for k in v if k not in before.get(g, set())}
            if new != want_new or set(data) != set(before):
                problems.append("derived variables %s in groups %s (required %s in the mesh group)" % (sorted(new), sorted(data), sorted(want_new)))
            m = data.get("mesh", {})
            for (g, k), (tok, origin, unit) in inputs.items():
                cur = data.get(g, {}).get(k)
                if cur is not tok or tok.origin != origin or tok.unit.name != unit:
                    problems.append("the loaded variable %s/%s was changed: now %r [%s] (a derived variable computed in place in its buffer)" % (g, k, getattr(cur, "origin", cur), getattr(getattr(cur, "unit", None), "name", None)))
            for k in new:
                if any(m.get(k) is tok for tok, _, _ in inputs.values()):
                    problems.append("the derived variable %s IS the object of a loaded variable" % k)
            try:
                if "B_field" in want_new and "B_field" in m:
                    got = sem(m["B_field"].origin)
                    want = (Poly.sym("B_left") + Poly.sym("B_right")) * Poly.const(0.5)
                    if got != want:
                        problems.append("B_field = %r (required the mean of the two face fields)" % (got,))
                if "mass" in want_new and "mass" in m:
                    o = m["mass"].origin
                    inner = o[1] if isinstance(o, tuple) and o and o[0] == "to" else o
                    got = sem(inner)
                    want = Poly.sym("density") * Poly.sym("dx") ** 3
                    if got != want:
                        problems.append("mass = %r (required density * dx**3)" % (got,))
                    if not (isinstance(o, tuple) and o[0] == "to" and o[2] == "M_sun"):
                        problems.append("mass is not converted to solar masses: %r" % (o,))
            except NotAMask as e:
                problems.append("derived variable with an unexpected form: %s" % e)
            run.ob(construct, not problems, fi.where(), "; ".join(problems) or "new mesh variables %s with the documented formulas" % sorted(want_new),
                   "derived variable missing or wrong (B_field is not the mean of the face fields, mass is not density * dx**3); a missing input aborts the load")
        except ERR as e:
            run.unresolved(construct, fi.where(), "cannot fold: %s" % e)


# =============================================================================== units/library.py::UnitsLibrary histories
def check_units_library(run, tree):
    """UnitsLibrary interpreted over TWO instances with different contents (each dataset builds its own from its unit_d/unit_l/unit_t):
    exact keys, wildcard keys, the default, assignment after a lookup -- any state shared between instances or kept across
    assignments shows as a wrong answer in the second half of the history"""
    import re as _re
    ci = tree.cls("units/library.py::UnitsLibrary")
    gi = tree.method(ci, "__getitem__")
    run.analysed(gi)
    hooks = {"ext": {"re.compile": _re.compile, "re.match": _re.match, "re.fullmatch": _re.fullmatch, "re.search": _re.search, "re.escape": _re.escape,
                     "fnmatch.fnmatch": __import__("fnmatch").fnmatch, "fnmatch.fnmatchcase": __import__("fnmatch").fnmatchcase}, "globals": {}, "class": {}, "pkgfunc": {}}
    construct = "units/library.py::UnitsLibrary[two instances, lookups and assignments]"
    try:
        ev = ModelEval(tree, tree.method(ci, "__init__"), {}, hooks)
        mk = lambda tag: ev.instantiate(ci, [{"density": "D" + tag, "velocity_*": "V" + tag, "position_*": "P" + tag, "velocity_z": "VZ" + tag}, "DEF" + tag], {}, None)
        a, b = mk("1"), mk("2")
        get = lambda o, k: ev.invoke(gi, [o, k], {}, None)
        si = tree.method(ci, "__setitem__")
        steps = [("a", "velocity_x", "V1"), ("b", "velocity_x", "V2"), ("a", "density", "D1"), ("b", "density", "D2"), ("a", "nothing", "DEF1"), ("b", "nothing", "DEF2"),
                 ("a", "velocity_z", "VZ1"), ("b", "position_y", "P2"), ("a", "position_y", "P1"), ("b", "velocity_x", "V2")]
        problems = []
        for who, key, want in steps:
            got = get(a if who == "a" else b, key)
            if got != want:
                problems.append("%s[%r] -> %r (required %r)" % (who, key, got, want))
        ev.invoke(si, [a, "velocity_x", "NEW"], {}, None)
        ev.invoke(si, [b, "velocity_*", "W2"], {}, None)
        ev.invoke(si, [a, "tracer_*", "T1"], {}, None)          # a NEW wildcard key, added by the user after the dataset was created
        upd = tree.method(ci, "update")
        if upd is not None:
            ev.invoke(upd, [b, {"metal_*": "M2"}], {}, None)
        for who, key, want in (("a", "velocity_x", "NEW"), ("a", "velocity_y", "V1"), ("b", "velocity_x", "W2"), ("b", "velocity_y", "W2"), ("a", "tracer_3", "T1"),
                               ("b", "tracer_3", "DEF2")) + ((("b", "metal_fe", "M2"), ("a", "metal_fe", "DEF1")) if upd is not None else ()):
            got = get(a if who == "a" else b, key)
            if got != want:
                problems.append("after assignment: %s[%r] -> %r (required %r)" % (who, key, got, want))
        run.ob(construct, not problems, gi.where(), "; ".join(problems[:3]) or "every lookup answers from the instance's own, current table",
               "the second dataset loaded in a process gets the first one's unit factors for wildcard variables (velocity_*, position_*), or an updated unit is ignored")
    except (Raised, ProgramRaised) as e:
        run.violated(construct, gi.where(), "raises %s" % e, "unit lookup")
    except ERR as e:
        run.unresolved(construct, gi.where(), "cannot fold: %s" % e)


# =============================================================================== io/ramses.py::RamsesDataset.load histories
def check_dataset_load_history(run, tree):
    """RamsesDataset.load interpreted on the real Dataset/Datagroup classes with a loader model that hands out prepared groups: after any
    sequence of loads each group present IS what the most recent call producing it returned (same members, nothing carried over from the
    group it replaces), groups of earlier calls stay, the derived-variable hook runs on the dataset after every load"""
    from .core_models import ArrTok, core_hooks
    from .core_folds import DS_Q, DG_Q, call_method, new_group
    ci = tree.cls("io/ramses.py::RamsesDataset")
    load = tree.method(ci, "load") if ci is not None else None
    if load is None:
        run.unresolved("io/ramses.py::RamsesDataset.load", "src/osyris/io/ramses.py", "RamsesDataset.load not found")
        return
    run.analysed(load)

    class LoaderModel(Model):
        def __init__(self, script):
            self.script, self.calls = list(script), []

        def load(self, *a, **k):
            self.calls.append((a, dict(k)))
            return self.script.pop(0)

    def group(hooks, members, n):
        g = new_group(tree, hooks)
        for k in members:
            call_method(tree, hooks, g, "__setitem__", k, ArrTok(("load%d" % n, k), "u", (4,)))
        return g

    histories = [
        ("full mesh, then the same cells with fewer variables", [{"mesh": ["density", "pressure", "level"]}, {"mesh": ["density"]}]),
        ("fewer variables, then all", [{"mesh": ["density"]}, {"mesh": ["density", "pressure"]}]),
        ("mesh and particles, then particles only", [{"mesh": ["density"], "part": ["mass", "id"]}, {"part": ["mass"]}]),
        ("the same call twice", [{"mesh": ["density", "level"]}, {"mesh": ["density", "level"]}]),
        ("three loads with alternating variable sets", [{"mesh": ["density", "level"]}, {"mesh": ["level"]}, {"mesh": ["density"]}]),
        # the selection written the ways users write it: a group produced by an earlier, restricted call is replaced by a later call that
        # asks for the group by name (a list of names / a variable list) - "already there" is no reason to skip it
        ("a restricted mesh (predicate), then the mesh asked for by name", [{"mesh": ["density", "level"]}, {"mesh": ["density", "level"]}],
         [{"mesh": {"density": "PREDICATE"}}, ["mesh"]]),
        ("mesh and particles by name, then the particles by name with another cpu list", [{"mesh": ["density"], "part": ["mass"]}, {"part": ["mass"]}],
         [["mesh", "part"], ("part",)]),
        ("no selection at all, twice", [{"mesh": ["density"]}, {"mesh": ["density"]}], [None, None]),
    ]
    for label, seq, *sel_spec in histories:
        selects = sel_spec[0] if sel_spec else ["SELECT-%d" % i for i in range(len(seq))]
        construct = "io/ramses.py::RamsesDataset.load[history: %s]" % label
        try:
            hooks = core_hooks()
            hooked = []
            hooks.setdefault("pkgfunc", {})["config/defaults.py::additional_variables"] = lambda data: hooked.append(data)

            class Cfg(Model):
                def additional_variables(self, data):
                    hooked.append(data)
            hooks.setdefault("globals", {}).update({"config/__init__.py::config": Cfg(), "__init__.py::config": Cfg()})
            groups = [{name: group(hooks, members, i) for name, members in step.items()} for i, step in enumerate(seq)]
            ds = PyObj(ci)
            ds._attrs.update({"groups": {}, "meta": {"ncells": 0}, "units": "UNITS", "loader": LoaderModel(groups)})
            problems = []
            latest = {}
            for i, step in enumerate(seq):
                n_hook = len(hooked)
                r = ModelEval(tree, load, {}, hooks).invoke(load, [ds], {"select": selects[i]}, None)
                if r is not ds:
                    problems.append("load %d returns %r (required the dataset)" % (i + 1, r))
                latest.update({name: (i, groups[i][name], step[name]) for name in step})
                cont = ds._attrs["groups"]
                if list(cont) != list(latest):
                    problems.append("after load %d the dataset holds %s (required %s)" % (i + 1, list(cont), list(latest)))
                for name, (j, gobj, members) in latest.items():
                    g = cont.get(name)
                    if g is None:
                        continue
                    have = {k: getattr(v, "origin", v) for k, v in g._attrs["_container"].items()}
                    want = {k: ("load%d" % j, k) for k in members}
                    if have != want:
                        problems.append("after load %d group %r holds %s (required what load %d returned: %s)" % (i + 1, name, have, j + 1, want))
                if len(hooked) != n_hook + 1 or hooked[-1] is not ds:
                    problems.append("load %d: the derived-variable hook ran %d time(s)%s" % (i + 1, len(hooked) - n_hook, "" if not hooked or hooked[-1] is ds else " on another object"))
                if problems:
                    break
            lm = ds._attrs["loader"]
            if not problems and len(lm.calls) != len(seq):
                problems.append("the loader was called %d time(s) for %d loads" % (len(lm.calls), len(seq)))
            if not problems and any(c[1].get("meta") is not ds._attrs["meta"] or c[1].get("units") != "UNITS" or c[1].get("select") != selects[n_] for n_, c in enumerate(lm.calls)):
                problems.append("the loader is not given the dataset's own meta / units / the caller's arguments: %r" % ([sorted(c[1]) for c in lm.calls],))
            run.ob(construct, not problems, load.where(), "; ".join(problems[:2]) or "every group is what the latest call producing it returned; earlier groups kept; hook applied each time",
                   "a reload with fewer variables (or another row order) keeps variables of the group it replaces: values from another selection next to the new ones")
        except (Raised, ProgramRaised) as e:
            run.violated(construct, load.where(), "raises %s" % e, "repeated load() on one dataset")
        except ERR as e:
            run.unresolved(construct, load.where(), "cannot fold: %s" % e)
