"""C18: get_direction / VectorBasis / normalize / perpendicular_vector / cross interpreted (ModelEval) over symbolic scalar
Arrays (exact rational functions with square-root symbols): the resulting basis is checked algebraically (orthogonal, unit
length, u x v = +n) for every string form (the complete finite domain) and for generic vectors per zero-pattern family."""
from __future__ import annotations

import itertools

from ..models import ModelEval, PyObj, Raised
from ..peval import Model, Unsupported, ProgramRaised
from ..poly import Poly, Rat, Fn
from ..source import AnalysisError
from .core_models import UnitTok, VECTOR_Q, core_hooks

ERR = (Unsupported, AnalysisError)
GD = "plot/direction.py::get_direction"
VB = "core/vector.py::VectorBasis"


def R(x):
    if isinstance(x, SNum):
        return x.r
    if isinstance(x, Rat):
        return x
    if isinstance(x, Poly):
        return Rat(x)
    if isinstance(x, (int, float)) and not isinstance(x, bool):
        return Rat(Poly.const(x))
    raise Unsupported("not a number: %r" % (x,))


def cancel_monomial(r):
    """divide numerator and denominator by their common monomial factor (and make the denominator's leading structure small)"""
    n, d = r.n, r.d
    if n.t == {}:
        return Rat(Poly())
    common = None
    for p_ in (n, d):
        for mono in p_.t:
            m = dict(mono)
            if common is None:
                common = dict(m)
            else:
                for k in list(common):
                    e = min(common[k], m.get(k, 0))
                    if e:
                        common[k] = e
                    else:
                        del common[k]
            if not common:
                return r
    if not common:
        return r

    def div(p_):
        out = Poly()
        for mono, coef in p_.t.items():
            m = dict(mono)
            for k, e in common.items():
                m[k] -= e
            term = Poly.const(coef)
            for k, e in m.items():
                if e:
                    term = term * (Poly.sym(k) ** e)
            out = out + term
        return out
    return Rat(div(n), div(d))


def simplify(r):
    r = R(r)
    try:
        return Rat(r.as_poly())
    except (ValueError, ZeroDivisionError):
        return cancel_monomial(r)


def _reduce_poly(p):
    """polynomial with sqrt symbols s = Fn('sqrt', Q), Q rational: s**2 -> Q.  Returns (Rat, changed)"""
    out = Rat(Poly())
    changed = False
    for mono, coef in p.t.items():
        term = Rat(Poly.const(coef))
        for s_, e in mono:
            if isinstance(s_, Fn) and s_.name == "sqrt" and e >= 2:
                rad = R(s_.args[0])
                term = term * (rad ** (e // 2)) * Rat(Poly.sym(s_) ** (e % 2))
                changed = True
            else:
                term = term * Rat(Poly.sym(s_) ** e)
        out = out + term
    return out, changed


def reduce_rat(r):
    r = R(r)
    for _ in range(8):
        n, c1 = _reduce_poly(r.n)
        d, c2 = _reduce_poly(r.d)
        r = n / d
        if not (c1 or c2):
            break
    return r


def reduce_sqrt(p):
    return reduce_rat(Rat(p)).n


def is_zero(r):
    """rational function identically zero modulo the relations sqrt(Q)**2 = Q (denominators are non-zero at a generic point)"""
    return reduce_rat(R(r)).n.t == {}


def equals(a, b):
    return is_zero(R(a) - R(b))


class SNum(Model):
    """a raw number (what Array.values holds): exact rational function"""
    kinds = ("ndarray",)
    shape = ()
    assumptions = []
    symbolic_number = True

    def __init__(self, r):
        self.r = R(r)

    def _b(self, o, f):
        return SNum(f(self.r, R(o)))

    def __add__(self, o):
        return self._b(o, lambda a, b: a + b)

    __radd__ = __add__

    def __sub__(self, o):
        return self._b(o, lambda a, b: a - b)

    def __rsub__(self, o):
        return self._b(o, lambda a, b: b - a)

    def __mul__(self, o):
        return self._b(o, lambda a, b: a * b)

    __rmul__ = __mul__

    def __truediv__(self, o):
        return self._b(o, lambda a, b: a / b)

    def __rtruediv__(self, o):
        return self._b(o, lambda a, b: b / a)

    def __neg__(self):
        return SNum(-self.r)

    def nonzero(self):
        """decided exactly for constants and identically-zero expressions; a non-constant expression is non-zero at a generic
        point of its zero-pattern family (recorded as an assumption)"""
        n = reduce_sqrt(self.r.n)
        if n.t == {}:
            return False
        if n.is_const():
            return True
        SNum.assumptions.append("%r != 0" % (self.r,))
        return True

    def __eq__(self, o):
        try:
            d = SNum(self.r - R(o))
        except Unsupported:
            return False
        return not d.nonzero()

    def __ne__(self, o):
        return not self.__eq__(o)

    def __bool__(self):
        return self.nonzero()

    def __hash__(self):
        return hash(repr(self.r))

    def __repr__(self):
        return "SNum(%r)" % (self.r,)


class SA(Model):
    """osyris Array holding one symbolic number (units are not the subject here)"""
    kinds = ("Array", "Base")
    shape = ()
    ndim = 0

    def __init__(self, r, unit=None, name=""):
        self.r = R(r)
        self.unit = unit if isinstance(unit, UnitTok) else UnitTok(unit if unit is not None else "dimensionless")
        self.name = name

    @property
    def values(self):
        return SNum(self.r)

    _array = values

    @property
    def norm(self):
        return self

    def copy(self):
        return SA(self.r, self.unit, self.name)

    def to(self, unit):
        return SA(self.r, unit, self.name)

    def _b(self, o, f):
        if isinstance(o, PyObj):
            return NotImplemented
        return SA(f(self.r, R(o.r if isinstance(o, SA) else o)), self.unit, "")

    def __add__(self, o):
        return self._b(o, lambda a, b: a + b)

    __radd__ = __iadd__ = __add__

    def __sub__(self, o):
        return self._b(o, lambda a, b: a - b)

    __isub__ = __sub__

    def __rsub__(self, o):
        return self._b(o, lambda a, b: b - a)

    def __mul__(self, o):
        return self._b(o, lambda a, b: a * b)

    __rmul__ = __imul__ = __mul__

    def __truediv__(self, o):
        return self._b(o, lambda a, b: a / b)

    __itruediv__ = __truediv__

    def __rtruediv__(self, o):
        return self._b(o, lambda a, b: b / a)

    def __neg__(self):
        return SA(-self.r, self.unit, "")

    def __repr__(self):
        return "SA(%r)" % (self.r,)


def array_factory(values=None, unit=None, name=""):
    if isinstance(values, (SA, PyObj)):
        raise Raised("NotImplementedError", None, "Cannot create Array from Array or Vector.")
    return SA(R(values), unit, name)


def ssqrt(x):
    from .core_models import RawTok
    if isinstance(x, RawTok):
        return RawTok(("sqrt", x.origin), x.shape)
    r = simplify(reduce_rat(R(x)))
    n, d = r.n, r.d
    if n.is_const() and d.is_const():
        from fractions import Fraction
        v = Fraction(n.const_value()) / Fraction(d.const_value())
        import math
        for num, den in ((v.numerator, v.denominator),):
            rn, rd = math.isqrt(num) if num >= 0 else -1, math.isqrt(den)
            if rn >= 0 and rn * rn == num and rd * rd == den:
                return SNum(Rat(Poly.const(Fraction(rn, rd))))
    return SNum(Rat(Poly.sym(Fn("sqrt", Rat(n, d)))))


def isclose(a, b, *args, **kw):
    """tolerance test: exact for constants; for a symbolic quantity of a family it CAN hold at a (tiny) non-zero point of the family,
    so the adversarial outcome True is taken"""
    try:
        d = SNum(R(a) - R(b))
    except Unsupported:
        raise
    n = reduce_rat(d.r).n
    if n.t == {}:
        return True
    if n.is_const() and reduce_rat(d.r).d.is_const():
        return abs(float(n.const_value()) / float(reduce_rat(d.r).d.const_value())) <= 1e-8
    SNum.assumptions.append("isclose(%r, %r) taken as True at a tiny non-zero point of the family" % (a, b))
    return True


def _extreme(name):
    """np.max / np.min over raw numbers: exact when they are all known, otherwise an opaque symbol whose value (and sign) is computed from
    its arguments wherever an expression is evaluated at a point of an orthant"""
    def f(xs, *a, **k):
        flat = []
        for x in (xs if isinstance(xs, (list, tuple)) else [xs]):
            flat.append(x if isinstance(x, SNum) else SNum(R(x)))
        rs = [x.r for x in flat]
        try:
            vals = [r_.as_poly().const_value() for r_ in rs if r_.as_poly().is_const()]
        except Exception:
            vals = []
        if len(vals) == len(rs):
            return SNum(R(Poly.const({"max": max, "min": min}[name](vals))))
        return SNum(R(Poly.sym(Fn(name, *rs))))
    return f


def hooks():
    h = core_hooks({"numpy.max": _extreme("max"), "numpy.amax": _extreme("max"), "numpy.min": _extreme("min"), "numpy.amin": _extreme("min"), "numpy.sqrt": ssqrt, "numpy.isclose": isclose, "math.isclose": isclose, "numpy.zeros": lambda *a, **k: SNum(0), "numpy.abs": lambda x: x,
                    "numpy.where": lambda c, a, b: a if c else b})
    h["class"] = {"core/array.py::Array": array_factory}
    h["builtins"] = {"print": lambda *a, **k: None}
    return h


def abstract_normalize(tree, hk):
    """normalize(v) abstracted as 'v scaled by a positive number' (justified by check_normalize): same components, flagged"""
    def stub(v):
        if not (isinstance(v, PyObj) and v._cls.qual == VECTOR_Q):
            raise Unsupported("normalize(%r)" % (v,))
        out = vec(tree, hk, comps_of(tree, hk, v), name=v._attrs.get("_name", ""))
        out._attrs["_normalised"] = True
        return out
    hk.setdefault("pkgfunc", {})["core/vector.py::normalize"] = stub
    return hk


def vec(tree, hk, comps, name="", unit=None):
    ci = tree.cls(VECTOR_Q)
    ev = ModelEval(tree, tree.method(ci, "__init__"), {}, hk)
    kw = {c: SA(v) if not isinstance(v, SA) else v for c, v in zip("xyz", comps)}
    v = ev.instantiate(ci, [], dict(kw, name=name), None)
    return v


def comps_of(tree, hk, v):
    ev = ModelEval(tree, tree.func(VECTOR_Q + ".__init__"), {}, hk)
    xyz = ev.obj_getattr(v, "_xyz")
    return [xyz[c].r if c in xyz else R(0) for c in "xyz"]


def numeric(r, point):
    """float value of a rational function with sqrt symbols at a point {symbol: number}"""
    import math
    r = R(r)

    def pv(p):
        tot = 0.0
        for mono, coef in p.t.items():
            x = float(coef)
            for s_, e in mono:
                if isinstance(s_, Fn) and s_.name == "sqrt":
                    x *= math.sqrt(numeric(s_.args[0], point)) ** e
                elif isinstance(s_, Fn) and s_.name in ("max", "min"):
                    x *= {"max": max, "min": min}[s_.name](numeric(a_, point) for a_ in s_.args) ** e
                else:
                    x *= float(point[s_]) ** e
            tot += x
        return tot
    return pv(r.n) / pv(r.d)


def orthant_points(symbols):
    mags = {"a": 2.0, "b": 3.0, "c": 5.0}
    syms = sorted(symbols)
    for signs in itertools.product((1, -1), repeat=len(syms)):
        yield {s_: sg * mags.get(s_, 7.0) for s_, sg in zip(syms, signs)}


def positive_everywhere(r, symbols):
    """r is known to be non-vanishing on the family (its square is a positive quantity): its sign is constant on every orthant
    of the non-zero symbols, so one evaluation per orthant decides it"""
    return all(numeric(r, pt) > 0 for pt in orthant_points(symbols))


def dot(a, b):
    return a[0] * b[0] + a[1] * b[1] + a[2] * b[2]


def cross(a, b):
    return [a[1] * b[2] - a[2] * b[1], a[2] * b[0] - a[0] * b[2], a[0] * b[1] - a[1] * b[0]]


def basis_problems(tree, hk, basis, want_n=None, exact=None):
    """orthonormal, right-handed (u x v = n); n parallel to want_n with positive scale; or exactly the given vectors.
    With normalize abstracted (vectors flagged _normalised) the unit-length test becomes 'the vector went through normalize'
    and the remaining tests are polynomial identities on the unnormalised vectors."""
    if not (isinstance(basis, PyObj) and basis._cls.qual == VB):
        return ["returns %r" % (basis,)]
    n, u, v = (comps_of(tree, hk, basis._attrs.get(k)) for k in "nuv")
    problems = []
    for nm, w in (("n", n), ("u", u), ("v", v)):
        if all(is_zero(x) for x in w):
            problems.append("%s is the zero vector" % nm)
    if problems:
        return problems
    flags = [bool(basis._attrs.get(k)._attrs.get("_normalised")) for k in "nuv"]
    if exact is None and any(flags):
        for nm, fl in zip("nuv", flags):
            if not fl:
                problems.append("%s is not normalised" % nm)
        for (na, a), (nb, b) in itertools.combinations((("n", n), ("u", u), ("v", v)), 2):
            if not is_zero(dot(a, b)):
                problems.append("%s.%s = %r (required 0)" % (na, nb, dot(a, b)))
        syms = {y for w in (n, u, v) for x in w for p_ in (R(x).n, R(x).d) for y in p_.symbols() if isinstance(y, str)}
        if not problems:
            # u x v parallel to n and pointing the same way
            c = cross(u, v)
            if not all(is_zero(x) for x in cross(c, n)):
                problems.append("u x v is not parallel to n")
            elif not positive_everywhere(dot(c, n), syms):
                problems.append("u x v = -n: the image is mirrored")
        if want_n is not None and not problems:
            wn = [R(x) for x in want_n]
            syms = set(syms) | {y for x in wn for p_ in (x.n, x.d) for y in p_.symbols() if isinstance(y, str)}
            if not all(is_zero(x) for x in cross(n, wn)):
                problems.append("n = %s is not parallel to the requested direction %s" % (n, wn))
            elif not positive_everywhere(dot(n, wn), syms):
                problems.append("n points along MINUS the requested direction")
        return problems
    if exact is not None:
        for nm, got, want in zip("nuv", (n, u, v), exact):
            if not all(equals(g, R(w)) for g, w in zip(got, want)):
                problems.append("%s = %s (required %s)" % (nm, got, list(want)))
        return problems
    for nm, a in (("n", n), ("u", u), ("v", v)):
        if not equals(dot(a, a), R(1)):
            problems.append("|%s|^2 = %r (required 1)" % (nm, dot(a, a)))
    for (na, a), (nb, b) in itertools.combinations((("n", n), ("u", u), ("v", v)), 2):
        if not is_zero(dot(a, b)):
            problems.append("%s.%s = %r (required 0)" % (na, nb, dot(a, b)))
    syms = set()
    for w in (n, u, v):
        for x in w:
            for p_ in (R(x).n, R(x).d):
                for s_ in p_.symbols():
                    if isinstance(s_, str):
                        syms.add(s_)
                    elif isinstance(s_, Fn):
                        for q in (R(s_.args[0]).n, R(s_.args[0]).d):
                            syms |= {y for y in q.symbols() if isinstance(y, str)}
    # handedness: t = (u x v).n satisfies t^2 = 1 (algebraic) and t > 0 (one point per orthant)
    t = dot(cross(u, v), n)
    if not problems:
        if not equals(t * t, R(1)):
            problems.append("(u x v).n squared = %r (required 1)" % (reduce_rat(t * t),))
        elif not positive_everywhere(t, syms):
            problems.append("u x v = -n: the image is mirrored")
    if want_n is not None and not problems:
        wn = [R(x) for x in want_n]
        syms = set(syms) | {y for x in wn for p_ in (x.n, x.d) for y in p_.symbols() if isinstance(y, str)}
        cr = cross(n, wn)
        if not all(is_zero(x) for x in cr):
            problems.append("n = %s is not parallel to the requested direction %s" % (n, wn))
        elif not positive_everywhere(dot(n, wn), syms):
            problems.append("n points along MINUS the requested direction")
    return problems


AXES = {"x": (1, 0, 0), "y": (0, 1, 0), "z": (0, 0, 1)}
LETTER_BASIS = {"x": ("x", "y", "z"), "y": ("y", "z", "x"), "z": ("z", "x", "y")}


def check_string_forms(run, tree, all_cases=False):
    hk = hooks()
    fi = tree.func(GD)
    run.analysed(fi)
    forms = [(l, LETTER_BASIS[l]) for l in "xyz"] + [(l.upper(), LETTER_BASIS[l]) for l in "z"] + \
            [("".join(p), p) for p in itertools.permutations("xyz")] + [("ZYX", ("z", "y", "x"))]
    if all_cases:
        # thorough tier: the complete domain of accepted axis strings, in every mix of upper and lower case
        base = [(l, LETTER_BASIS[l]) for l in "xyz"] + [("".join(p), p) for p in itertools.permutations("xyz")]
        forms = []
        for text, want in base:
            for mask in itertools.product((False, True), repeat=len(text)):
                forms.append(("".join(ch.upper() if up else ch for ch, up in zip(text, mask)), want))
    for d, (a, b, c) in forms:
        construct = "%s[direction=%r]" % (GD, d)
        try:
            try:
                basis = ModelEval(tree, fi, {}, hk).invoke(fi, [d], {}, None)
            except (Raised, ProgramRaised) as e:
                run.violated(construct, fi.where(), "raises %s" % e, "map(direction=%r)" % d)
                continue
            probs = basis_problems(tree, hk, basis, exact=(AXES[a], AXES[b], AXES[c]))
            if not probs and len(d) == 1:
                probs = basis_problems(tree, hk, basis)       # single letters: must be right-handed
            run.ob(construct, not probs, fi.where(), "; ".join(probs[:3]) or "n, u, v = %s, %s, %s" % (a, b, c),
                   "direction=%r: the image plane is spanned by other axes than documented (first letter normal, second horizontal, third vertical) "
                   "or is mirrored" % d)
        except ERR as e:
            run.unresolved(construct, fi.where(), "cannot fold: %s" % e)
    # history: a returned basis belongs to the caller - editing it in place (b.n *= -1, flipping an axis of the image) must not change
    # what the NEXT call answers (axis vectors kept at module level and handed out by reference would)
    for d, (a, b, c) in [f for f in forms if f[0] in ("x", "y", "z", "xyz", "zyx", "yzx")]:
        construct = "%s[direction=%r, asked again after the first answer was edited in place]" % (GD, d)
        try:
            try:
                first = ModelEval(tree, fi, {}, hk).invoke(fi, [d], {}, None)
                ev = ModelEval(tree, tree.func(VECTOR_Q + ".__init__"), {}, hk)
                for nm in "nuv":
                    for comp in ev.obj_getattr(ev.obj_getattr(first, nm), "_xyz").values():
                        comp.r = R(Poly.sym("scribble"))
                second = ModelEval(tree, fi, {}, hk).invoke(fi, [d], {}, None)
            except (Raised, ProgramRaised) as e:
                run.violated(construct, fi.where(), "raises %s" % e, "map(direction=%r) twice" % d)
                continue
            probs = basis_problems(tree, hk, second, exact=(AXES[a], AXES[b], AXES[c]))
            run.ob(construct, not probs and second is not first, fi.where(), "; ".join(probs[:3]) or "the second answer is a new basis with n, u, v = %s, %s, %s" % (a, b, c),
                   "b = get_direction(%r); b.n *= -1; every later map(direction=%r) is mirrored (the axis vectors are shared between calls)" % (d, d))
        except ERR as e:
            run.unresolved(construct, fi.where(), "cannot fold: %s" % e)
    # every OTHER string spelled with axis letters (repeated letters, two letters, four letters): either it is not accepted (an exception,
    # or no basis at all) or the basis it yields is orthonormal like any other - "xxy" or "xxyz" must not reach map() as n = u = x
    perms = {"".join(p) for p in itertools.permutations("xyz")}
    words = ["".join(w) for k in ((2, 3, 4, 5) if all_cases else (2, 3, 4)) for w in itertools.product("xyz", repeat=k)]
    words = [w for w in words if w not in perms] + ["XXY", "Zzz"]
    n_ref = 0
    bad_words = []
    try:
        for w in words:
            try:
                basis = ModelEval(tree, fi, {}, hk).invoke(fi, [w], {}, None)
            except (Raised, ProgramRaised):
                n_ref += 1
                continue
            if basis is None:
                n_ref += 1
                continue
            probs = basis_problems(tree, hk, basis) if isinstance(basis, PyObj) else ["returns %r" % (basis,)]
            if probs:
                bad_words.append((w, probs[0]))
        construct = "%s[strings of axis letters that are not an axis order]" % GD
        run.ob(construct, not bad_words, fi.where(),
               "; ".join("direction=%r accepted with %s" % wp for wp in bad_words[:3]) + (" (%d strings in all)" % len(bad_words) if len(bad_words) > 3 else "")
               if bad_words else "%d strings: %d refused, %d accepted with an orthonormal basis" % (len(words), n_ref, len(words) - n_ref),
               "map(direction='xxy') or 'xxyz' renders from a basis with n = u (a degenerate image plane) instead of being refused")
    except ERR as e:
        run.unresolved("%s[strings of axis letters that are not an axis order]" % GD, fi.where(), "cannot fold: %s" % e)
    # anything else is refused
    for bad in (3.5, ["x"], None):
        construct = "%s[direction=%r]" % (GD, bad)
        try:
            try:
                r = ModelEval(tree, fi, {}, hk).invoke(fi, [bad], {}, None)
                got = "returns %r" % (r,)
            except (Raised, ProgramRaised) as e:
                got = "raises %s" % getattr(e, "name", e)
            run.ob(construct, got.startswith("raises ValueError"), fi.where(), got, "an unusable direction is accepted", nontrivial=False)
        except ERR as e:
            run.unresolved(construct, fi.where(), "cannot fold: %s" % e)


def families():
    """zero-pattern families of a non-zero vector (a, b, c): symbols stand for generic non-zero numbers"""
    out = []
    for pat in itertools.product((0, 1), repeat=3):
        if not any(pat):
            continue
        comps = [Poly.sym(s) if p else 0 for s, p in zip("abc", pat)]
        out.append(("(%s)" % ", ".join(s if p else "0" for s, p in zip("abc", pat)), comps))
    return out


def check_normalize(run, tree):
    """normalize(v) = v / |v| for every zero-pattern family (so: a positive multiple of v, of unit length); the zero vector is returned
    unchanged (exact-zero guard)"""
    hk = hooks()
    fi = tree.func("core/vector.py::normalize")
    run.analysed(fi)
    for label, comps in families() + [("(0, 0, 0)", [0, 0, 0])]:
        construct = "core/vector.py::normalize[v=%s]" % label
        try:
            SNum.assumptions = []
            v = vec(tree, hk, comps, name="keep")
            try:
                out = ModelEval(tree, fi, {}, hk).invoke(fi, [v], {}, None)
            except (Raised, ProgramRaised) as e:
                run.violated(construct, fi.where(), "raises %s" % e, "normalising %s" % label)
                continue
            got = comps_of(tree, hk, out)
            cin = [R(x) for x in comps]
            if all(is_zero(x) for x in cin):
                ok = all(equals(g, x) for g, x in zip(got, cin))
                detail = "the zero vector is returned %s" % ("unchanged" if ok else "as %s" % got)
            else:
                s_ = ssqrt(dot(cin, cin)).r
                ok = all(equals(g * s_, x) for g, x in zip(got, cin)) and out is not v and all(equals(a, b) for a, b in zip(comps_of(tree, hk, v), cin))
                detail = "normalize(v) * |v| %s v%s" % ("==" if ok else "!=", "" if ok else ": %s" % got)
            run.ob(construct, ok, fi.where(), detail, "a basis vector is not of unit length (or flipped): the image is stretched", nontrivial=label != "(0, 0, 0)")
        except ERR as e:
            run.unresolved(construct, fi.where(), "cannot fold: %s" % e)


def check_vector_forms(run, tree):
    check_normalize(run, tree)
    hk = abstract_normalize(tree, hooks())
    fi = tree.func(GD)
    ci = tree.cls(VB)
    init = tree.method(ci, "__init__")
    run.analysed(init)
    for label, comps in families():
        for how in ("VectorBasis(n=v)", "get_direction(v)", "VectorBasis(n=v).roll()"):
            construct = "%s[v=%s]" % (how if how.startswith("Vector") else GD + "[Vector]", label) if how != "get_direction(v)" else "%s[Vector %s]" % (GD, label)
            try:
                SNum.assumptions = []
                v = vec(tree, hk, comps, name="mine")
                before = (comps_of(tree, hk, v), v._attrs.get("_name"))
                try:
                    if how == "get_direction(v)":
                        basis = ModelEval(tree, fi, {}, hk).invoke(fi, [v], {}, None)
                    else:
                        basis = ModelEval(tree, init, {}, hk).instantiate(ci, [], {"n": v}, None)
                        if how.endswith("roll()"):
                            m = tree.method(ci, "roll")
                            b0 = basis
                            basis = ModelEval(tree, m, {}, hk).invoke(m, [basis], {}, None)
                except (Raised, ProgramRaised) as e:
                    run.violated(construct, init.where(), "raises %s" % e, "a direction vector %s" % label)
                    continue
                if how.endswith("roll()"):
                    probs = basis_problems(tree, hk, basis)
                    n0, u0, v0 = (comps_of(tree, hk, b0._attrs[k]) for k in "nuv")
                    n1, u1, v1 = (comps_of(tree, hk, basis._attrs[k]) for k in "nuv")
                    if not (all(equals(x, y) for x, y in zip(n1, u0)) and all(equals(x, y) for x, y in zip(u1, v0)) and all(equals(x, y) for x, y in zip(v1, n0))):
                        probs.append("roll() is not the cyclic permutation (n,u,v) -> (u,v,n)")
                else:
                    probs = basis_problems(tree, hk, basis, want_n=comps)
                after = (comps_of(tree, hk, v), v._attrs.get("_name"))
                if how == "get_direction(v)" and not all(equals(x, y) for x, y in zip(before[0], after[0])):
                    probs.append("the caller's vector is modified")
                run.ob(construct, not probs, init.where(), "; ".join(probs[:3]) or "orthonormal, u x v = +n, n along the request%s" % (
                    " (generic point: %d non-vanishing assumptions)" % len(SNum.assumptions) if SNum.assumptions else ""),
                       "a direction %s gives a skewed, unnormalised or mirrored basis" % label)
            except ERR as e:
                run.unresolved(construct, init.where(), "cannot fold: %s" % e)
    # a full basis passes through
    construct = "%s[VectorBasis]" % GD
    try:
        hk = hooks()
        n = vec(tree, hk, (0, 0, 2), name="n")
        u = vec(tree, hk, (3, 0, 0), name="u")
        v = vec(tree, hk, (0, 5, 0), name="v")
        b = ModelEval(tree, init, {}, hk).instantiate(ci, [], {"n": n, "u": u, "v": v}, None)
        basis = ModelEval(tree, fi, {}, hk).invoke(fi, [b], {}, None)
        probs = basis_problems(tree, hk, basis, exact=(AXES["z"], AXES["x"], AXES["y"]))
        run.ob(construct, not probs, fi.where(), "; ".join(probs) or "n, u, v taken from the given basis (normalised)", "a user-supplied basis is re-derived from its normal only")
    except (Raised, ProgramRaised) as e:
        run.violated(construct, fi.where(), "raises %s" % e, "map(direction=VectorBasis(...))")
    except ERR as e:
        run.unresolved(construct, fi.where(), "cannot fold: %s" % e)


# =============================================================================== 'top' / 'side': local angular momentum
def push_idx(o, key=None, rows=("P.", "W.", "M")):
    """distribute a row selection over element-wise operations: idx(a op b, k) = idx(a,k) op idx(b,k); row arrays get marked"""
    if isinstance(o, tuple) and o and o[0] == "idx" and len(o) == 3:
        return push_idx(o[1], o[2], rows)
    if isinstance(o, str):
        if key is not None and any(o.startswith(r) for r in rows):
            return ("row", o, key)
        return o
    if isinstance(o, tuple) and o and o[0] == "op":
        return ("op", o[1], push_idx(o[2], key, rows), push_idx(o[3], key, rows))
    if isinstance(o, tuple) and o and o[0] in ("+", "-", "*", "/") and len(o) == 3:
        return (o[0], push_idx(o[1], key, rows), push_idx(o[2], key, rows))
    if isinstance(o, tuple) and o and o[0] in ("sqrt", "neg"):
        return (o[0], push_idx(o[1], key, rows))
    return o


def sem2(o, keys):
    """polynomial of a pushed tree; ('row', name, key) -> symbol name@S; collects the selection keys"""
    from .subdomain_folds import NotAMask
    if isinstance(o, tuple) and o and o[0] == "row":
        keys.add(o[2] if not isinstance(o[2], list) else tuple(o[2]))
        return Poly.sym(o[1] + "@S")
    if isinstance(o, (int, float)) and not isinstance(o, bool):
        return Poly.const(o)
    if isinstance(o, SNum):
        # an exact number of the rational/sqrt algebra (e.g. sqrt(3)): a constant when rational, otherwise an opaque positive constant
        try:
            p = o.r.as_poly()
            if p.is_const():
                return Poly.const(p.const_value())
        except Exception:
            pass
        return Poly.sym("const:%r" % (o.r,))
    if o is None:
        raise NotAMask("None operand")
    if isinstance(o, str):
        return Poly.sym(o)
    if isinstance(o, tuple) and o:
        h = o[0]
        if h == "num":
            return Poly.const(o[1])
        if h == "zeros":
            return Poly.const(0)
        if h == "op":
            _, op, a, b = o
            if op in ("max", "min"):
                return Poly.sym(Fn(op, sem2(a, keys)))
            A = sem2(a, keys)
            if op == "__neg__":
                return -A
            B = sem2(b, keys)
            if op in ("__sub__", "__isub__"):
                return A - B
            if op == "__rsub__":
                return B - A
            if op in ("__add__", "__iadd__", "__radd__"):
                return A + B
            if op in ("__mul__", "__rmul__", "__imul__"):
                return A * B
            if op in ("__truediv__", "__itruediv__") and B.is_const() and B.const_value() != 0:
                return A / B
            if op in ("__truediv__", "__itruediv__") and not B.is_const() and all(str(s_).startswith("const:") for s_ in B.symbols()):
                return A * Poly.sym(Fn("1/", B))
        if h in ("+", "-", "*") and len(o) == 3:
            A, B = sem2(o[1], keys), sem2(o[2], keys)
            return A + B if h == "+" else A - B if h == "-" else A * B
        if h == "/" and len(o) == 3:
            B = sem2(o[2], keys)
            if B.is_const() and B.const_value() != 0:
                return sem2(o[1], keys) / B
        if h == "sqrt":
            return Poly.sym(Fn("sqrt", sem2(o[1], keys)))
        if h == "neg":
            return -sem2(o[1], keys)
    raise NotAMask("not a numeric expression: %r" % (o,))


def check_angular_momentum(run, tree):
    from .core_models import RawTok, ArrTok, make_vector, vector_components, unintern, array_factory as tok_array
    from .subdomain_folds import NotAMask
    fi = tree.func(GD)
    for label, with_dx, with_origin in (("window given, origin given", True, True), ("window given, no origin", True, False), ("no window", False, True)):
        for spelled in ("top", "side") + (("Side", "TOP") if label == "window given, origin given" else ()):
            which = spelled.lower()        # the keywords are accepted in any case: every spelling means the same orientation
            construct = "%s[direction=%r, %s]" % (GD, spelled, label)
            try:
                hk = abstract_normalize(tree, hooks())
                summed = {}

                def mixed_array(values=None, unit=None, name=""):
                    if isinstance(values, (SNum, int, float)):
                        return SA(R(values), unit, name)
                    return tok_array(values=values, unit=unit, name=name)

                def np_sum(x, *a, **k):
                    if isinstance(x, PyObj) and x._cls.qual == VECTOR_Q:
                        summed["comps"] = {c: v.origin for c, v in vector_components(tree, x, hk).items()}
                        return vec(tree, hk, [Poly.sym("L" + c) for c in "xyz"], name="")
                    raise Unsupported("np.sum(%r)" % (x,))
                hk["class"]["core/array.py::Array"] = mixed_array
                hk["ext"]["numpy.sum"] = np_sum

                class Reduce(Model):
                    """np.amax / np.amin ...: dispatched to a Vector through its __array_function__ (as numpy does), applied to an Array token directly"""

                    def __init__(self, name, method):
                        self.__name__, self.method = name, method

                    def __call__(self, x, *a, **k):
                        if isinstance(x, (list, tuple)) or isinstance(x, SNum):
                            return _extreme(self.method)(x)
                        if isinstance(x, PyObj):
                            mm = tree.method(x._cls, "__array_function__")
                            if mm is None:
                                raise Unsupported("np.%s(%r)" % (self.__name__, x))
                            return ModelEval(tree, mm, {}, hk).invoke(mm, [x, self, (), (x,) + tuple(a), dict(k)], {}, None)
                        if isinstance(x, ArrTok):
                            return getattr(x, self.method)()
                        raise Unsupported("np.%s(%r)" % (self.__name__, x))
                for nm, meth in (("amax", "max"), ("max", "max"), ("amin", "min"), ("min", "min"), ("nanmax", "max"), ("nanmin", "min")):
                    hk["ext"]["numpy." + nm] = Reduce(nm, meth)
                pos, _ = make_vector(tree, {c: "P." + c for c in "xyz"}, unit="m", shape=(5,), hooks=hk)
                vel, _ = make_vector(tree, {c: "W." + c for c in "xyz"}, unit="m/s", shape=(5,), hooks=hk)
                data = {"position": pos, "velocity": vel, "mass": ArrTok("M", "g", (5,))}
                origin = None
                if with_origin:
                    origin, _ = make_vector(tree, {c: "o." + c for c in "xyz"}, unit="m", shape=(), hooks=hk)
                kw = dict(direction=spelled, data=data, dx=ArrTok("dx", "m", ()) if with_dx else None, dy=ArrTok("dy", "m", ()) if with_dx else None, origin=origin)
                try:
                    basis = ModelEval(tree, fi, {}, hk).invoke(fi, [], kw, None)
                except (Raised, ProgramRaised) as e:
                    run.violated(construct, fi.where(), "raises %s" % e, "map(direction=%r)" % which)
                    continue
                problems = []
                if "comps" not in summed:
                    problems.append("no vector is summed over the cells")
                else:
                    keys = set()
                    got = {c: sem2(push_idx(o), keys) for c, o in summed["comps"].items()}
                    P = {c: Poly.sym("P.%s@S" % c) - (Poly.sym("o." + c) if with_origin else Poly.const(0)) for c in "xyz"}
                    W = {c: Poly.sym("W.%s@S" % c) for c in "xyz"}
                    m = Poly.sym("M@S")
                    want = {"x": P["y"] * m * W["z"] - P["z"] * m * W["y"], "y": P["z"] * m * W["x"] - P["x"] * m * W["z"],
                            "z": P["x"] * m * W["y"] - P["y"] * m * W["x"]}
                    for c in "xyz":
                        if got.get(c) != want[c]:
                            problems.append("summed vector, %s component: %r (required %r = ((pos - origin) * mass) x velocity over the selected cells)" % (c, got.get(c), want[c]))
                            break
                    if len(keys) != 1:
                        problems.append("positions, masses and velocities are selected with %d different masks" % len(keys))
                    else:
                        k0 = unintern(next(iter(keys)))
                        ks = set()
                        if isinstance(k0, tuple) and len(k0) == 4 and k0[0] == "op" and k0[1] in ("__gt__", "__ge__"):
                            k0 = ("op", {"__gt__": "__lt__", "__ge__": "__le__"}[k0[1]], k0[3], k0[2])
                        if not (isinstance(k0, tuple) and len(k0) == 4 and k0[0] == "op" and k0[1] in ("__lt__", "__le__")):
                            problems.append("the sphere mask is %r" % (k0,))
                        else:
                            lhs, rhs = sem2(push_idx(k0[2]), ks), sem2(push_idx(k0[3]), ks)
                            Pf = {c: Poly.sym("P." + c) - (Poly.sym("o." + c) if with_origin else Poly.const(0)) for c in "xyz"}
                            want_l = Poly.sym(Fn("sqrt", Pf["x"] * Pf["x"] + Pf["y"] * Pf["y"] + Pf["z"] * Pf["z"]))
                            if with_dx:
                                want_r = (Poly.sym("dx") + Poly.sym("dy")) * Poly.const(0.25)
                            else:
                                ext = Poly.const(0)
                                for c in "xyz":
                                    ext = ext + Poly.sym(Fn("max", Poly.sym("P." + c))) - Poly.sym(Fn("min", Poly.sym("P." + c)))
                                want_r = ext * Poly.const(0.5) / Poly.const(3.0)
                            if lhs != want_l:
                                problems.append("distance in the sphere test is %r (required |pos - origin|)" % (lhs,))
                            if rhs != want_r:
                                problems.append("sphere radius is %r (required %r)" % (rhs, want_r))
                if not problems:
                    L = [Poly.sym("L" + c) for c in "xyz"]
                    SNum.assumptions = []
                    n, u, v = (comps_of(tree, hk, basis._attrs.get(k)) for k in "nuv") if isinstance(basis, PyObj) else (None, None, None)
                    probs = basis_problems(tree, hk, basis)
                    problems.extend(probs)
                    if not probs:
                        target = n if which == "top" else v
                        cr = cross(target, [R(x) for x in L])
                        if not all(is_zero(x) for x in cr) or not positive_everywhere(dot(target, [R(x) for x in L]), {"Lx", "Ly", "Lz"}):
                            problems.append("%s of the basis is not along +L (the angular momentum)" % ("the normal" if which == "top" else "the vertical image axis"))
                run.ob(construct, not problems, fi.where(), "; ".join(problems[:3]) or
                       "L = sum over the sphere of ((pos - origin) * mass) x velocity; %s" % ("normal along +L" if which == "top" else "L in the image plane (vertical axis)"),
                       "'top' looks along -L (receiver/argument swapped) or along an unweighted / unrestricted angular momentum; 'side' does not put L in the image plane")
            except NotAMask as e:
                run.unresolved(construct, fi.where(), "cannot normalise: %s" % e)
            except ERR as e:
                run.unresolved(construct, fi.where(), "cannot fold: %s" % e)


# =============================================================================== perpendicular_vector for ALL inputs (not only generic points)
def check_perpendicular(run, tree):
    """per branch (z == 0 / z != 0): result . input == 0 as a rational identity, and the result vanishes for no non-zero input of the
    branch (a non-zero constant component, or a rank condition on the linear components)"""
    from fractions import Fraction as F
    PV = "core/vector.py::perpendicular_vector"
    fi = tree.func(PV)
    run.analysed(fi)
    hk = hooks()
    x, y, z = R(Poly.sym("x")), R(Poly.sym("y")), R(Poly.sym("z"))

    def rank(rows):
        rows = [list(map(F, r)) for r in rows]
        rk = 0
        for col in range(3):
            piv = next((i for i in range(rk, len(rows)) if rows[i][col] != 0), None)
            if piv is None:
                continue
            rows[rk], rows[piv] = rows[piv], rows[rk]
            for i in range(len(rows)):
                if i != rk and rows[i][col] != 0:
                    f = rows[i][col] / rows[rk][col]
                    rows[i] = [a - f * b for a, b in zip(rows[i], rows[rk])]
            rk += 1
        return rk

    def kernel(rows):
        import itertools as it
        for cand in it.product(range(-3, 4), repeat=3):
            if any(cand) and all(sum(F(a) * b for a, b in zip(r, cand)) == 0 for r in rows):
                return cand
        return None
    for label, comps, zero_z in (("z == 0", [Poly.sym("x"), Poly.sym("y"), 0], True), ("z != 0", [Poly.sym("x"), Poly.sym("y"), Poly.sym("z")], False)):
        construct = "%s[%s]" % (PV, label)
        try:
            SNum.assumptions = []
            v = vec(tree, hk, comps, name="n")
            try:
                out = ModelEval(tree, fi, {}, hk).invoke(fi, [v], {}, None)
            except (Raised, ProgramRaised) as e:
                run.violated(construct, fi.where(), "raises %s" % e, "VectorBasis(n=...) for a bare normal")
                continue
            if not (isinstance(out, PyObj) and out._cls.qual == VECTOR_Q):
                run.violated(construct, fi.where(), "returns %r" % (out,), "VectorBasis(n=...) for a bare normal")
                continue
            c = comps_of(tree, hk, out)
            inp = [R(t) for t in comps]
            d = dot(c, inp)
            run.ob(construct + "::orthogonal", is_zero(d), fi.where(), "result (%r, %r, %r); result . input = %r" % (c[0], c[1], c[2], reduce_rat(d)),
                   "u is not perpendicular to the requested normal: the image plane is tilted")
            num = [ci.n for ci in c]
            const_nonzero = any(p.is_const() and p.const_value() != 0 and ci.d.is_const() for p, ci in zip(num, c))
            ok_nv, detail = const_nonzero, "a component is a non-zero constant" if const_nonzero else ""
            if not const_nonzero:
                rows, linear = [], True
                for p in num:
                    row = []
                    for s_ in ("x", "y", "z"):
                        co = p.coeff_of(s_, 1)
                        if not co.is_const():
                            linear = False
                            break
                        row.append(co.const_value())
                    if not linear:
                        break
                    rest = p - sum((Poly.sym(s_) * rw for s_, rw in zip(("x", "y", "z"), row)), Poly())
                    if rest.t:
                        linear = False
                        break
                    rows.append(row)
                if not linear:
                    run.unresolved(construct + "::non-vanishing", fi.where(), "components are not linear: cannot decide the zero set")
                    continue
                if zero_z:
                    rows.append([F(0), F(0), F(1)])
                if rank(rows) == 3:
                    ok_nv, detail = True, "the components vanish only for the zero vector"
                elif not zero_z and rank(rows + [[F(0), F(0), F(1)]]) == 3:
                    ok_nv, detail = True, "the components vanish only where z == 0, excluded by the branch condition"
                else:
                    ok_nv, detail = False, "the result is the zero vector for the non-zero input (x,y,z) = %s" % (kernel(rows),)
            run.ob(construct + "::non-vanishing", ok_nv, fi.where(), detail, "a normal such as (1,-1,0): u = v = 0, every pixel samples the origin")
        except ERR as e:
            run.unresolved(construct, fi.where(), "cannot fold: %s" % e)
