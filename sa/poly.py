"""D1: multivariate polynomials / rational functions with exact rational coefficients, in canonical form.

Two expressions are equal iff their canonical forms are equal, so any algebraically equal rewrite of a
formula (reordered terms, folded constants, distributed products) compares equal.
"""
from __future__ import annotations

from fractions import Fraction


def _skey(se):
    """total order on (symbol, exponent) pairs for symbols of mixed types (str, Fn)"""
    return (type(se[0]).__name__, repr(se[0]), se[1])


def _frac(c):
    if isinstance(c, Fraction):
        return c
    if isinstance(c, bool):
        return Fraction(int(c))
    if isinstance(c, int):
        return Fraction(c)
    if isinstance(c, float):
        if c != c or c in (float("inf"), float("-inf")):
            raise ValueError("non-finite constant")
        return Fraction(c).limit_denominator(10**12) if abs(c - round(c, 9)) > 0 else Fraction(round(c, 9)).limit_denominator(10**12)
    raise TypeError("not a number: %r" % (c,))


class Poly:
    __slots__ = ("t",)

    def __init__(self, terms=None):
        self.t = {k: v for k, v in (terms or {}).items() if v != 0}

    # -- constructors
    @staticmethod
    def const(c):
        return Poly({(): _frac(c)})

    @staticmethod
    def sym(s):
        return Poly({((s, 1),): Fraction(1)})

    @staticmethod
    def lift(x):
        if isinstance(x, Poly):
            return x
        if isinstance(x, Rat):
            raise TypeError("Rat where Poly expected")
        return Poly.const(x)

    # -- queries
    def is_const(self):
        return all(k == () for k in self.t)

    def const_value(self):
        if not self.is_const():
            raise ValueError("not constant: %r" % self)
        return self.t.get((), Fraction(0))

    def symbols(self):
        return {s for k in self.t for s, _ in k}

    def degree_in(self, s):
        return max([e for k in self.t for sy, e in k if sy == s] + [0])

    def coeff_of(self, s, deg):
        """Coefficient polynomial of s**deg."""
        out = {}
        for k, v in self.t.items():
            d = dict(k)
            if d.get(s, 0) == deg:
                d.pop(s, None)
                kk = tuple(sorted(d.items(), key=_skey))
                out[kk] = out.get(kk, 0) + v
        return Poly(out)

    # -- arithmetic
    def __add__(self, o):
        if isinstance(o, Rat):
            return Rat(self) + o
        o = Poly.lift(o)
        d = dict(self.t)
        for k, v in o.t.items():
            d[k] = d.get(k, 0) + v
        return Poly(d)

    __radd__ = __add__

    def __neg__(self):
        return Poly({k: -v for k, v in self.t.items()})

    def __sub__(self, o):
        if isinstance(o, Rat):
            return Rat(self) - o
        return self + (-Poly.lift(o))

    def __rsub__(self, o):
        return Poly.lift(o) - self

    def __mul__(self, o):
        if isinstance(o, Rat):
            return Rat(self) * o
        o = Poly.lift(o)
        d = {}
        for k1, v1 in self.t.items():
            for k2, v2 in o.t.items():
                m = dict(k1)
                for s, e in k2:
                    m[s] = m.get(s, 0) + e
                k = tuple(sorted(((s, e) for s, e in m.items() if e), key=_skey))
                d[k] = d.get(k, 0) + v1 * v2
        return Poly(d)

    __rmul__ = __mul__

    def __pow__(self, n):
        if isinstance(n, Poly):
            n = n.const_value()
        n = _frac(n)
        if n.denominator != 1:
            raise ValueError("non-integer power of a polynomial")
        n = int(n)
        if n < 0:
            return Rat(Poly.const(1), self ** (-n))
        out = Poly.const(1)
        for _ in range(n):
            out = out * self
        return out

    def __truediv__(self, o):
        if isinstance(o, Rat):
            return Rat(self) / o
        o = Poly.lift(o)
        if o.is_const():
            c = o.const_value()
            if c == 0:
                raise ZeroDivisionError
            return Poly({k: v / c for k, v in self.t.items()})
        return Rat(self, o)

    def __rtruediv__(self, o):
        return Rat(Poly.lift(o), self)

    def __eq__(self, o):
        if isinstance(o, Rat):
            return Rat(self) == o
        try:
            return (self - Poly.lift(o)).t == {}
        except TypeError:
            return NotImplemented

    def __ne__(self, o):
        r = self.__eq__(o)
        return r if r is NotImplemented else not r

    def __hash__(self):
        return hash(tuple(sorted(self.t.items(), key=repr)))

    def subs(self, mapping):
        out = Poly()
        for k, v in self.t.items():
            term = Poly.const(v)
            for s, e in k:
                base = Poly.lift(mapping[s]) if s in mapping else Poly.sym(s)
                term = term * (base ** e)
            out = out + term
        return out

    def evaluate(self, values):
        tot = Fraction(0)
        for k, v in self.t.items():
            x = v
            for s, e in k:
                x = x * (_frac(values[s]) ** e)
            tot += x
        return tot

    def __repr__(self):
        if not self.t:
            return "0"
        parts = []
        for k, v in sorted(self.t.items(), key=lambda kv: (len(kv[0]), repr(kv[0]))):
            mon = "*".join(str(s) if e == 1 else "%s^%d" % (s, e) for s, e in k)
            c = str(v) if v.denominator == 1 else "(%s)" % v
            if mon and v == 1:
                parts.append(mon)
            elif mon and v == -1:
                parts.append("-" + mon)
            else:
                parts.append(c + ("*" + mon if mon else ""))
        return " + ".join(parts).replace("+ -", "- ")


class Rat:
    """Quotient of two polynomials; equality by cross multiplication."""

    __slots__ = ("n", "d")

    def __init__(self, n, d=None):
        self.n = Poly.lift(n)
        self.d = Poly.const(1) if d is None else Poly.lift(d)
        if self.d.t == {}:
            raise ZeroDivisionError

    @staticmethod
    def lift(x):
        return x if isinstance(x, Rat) else Rat(Poly.lift(x))

    def __add__(self, o):
        o = Rat.lift(o)
        return Rat(self.n * o.d + o.n * self.d, self.d * o.d)

    __radd__ = __add__

    def __neg__(self):
        return Rat(-self.n, self.d)

    def __sub__(self, o):
        return self + (-Rat.lift(o))

    def __rsub__(self, o):
        return Rat.lift(o) - self

    def __mul__(self, o):
        o = Rat.lift(o)
        return Rat(self.n * o.n, self.d * o.d)

    __rmul__ = __mul__

    def __truediv__(self, o):
        o = Rat.lift(o)
        return Rat(self.n * o.d, self.d * o.n)

    def __rtruediv__(self, o):
        return Rat.lift(o) / self

    def __pow__(self, n):
        if isinstance(n, Poly):
            n = n.const_value()
        n = int(_frac(n))
        if n < 0:
            return Rat(self.d ** (-n), self.n ** (-n))
        return Rat(self.n ** n, self.d ** n)

    def __eq__(self, o):
        try:
            o = Rat.lift(o)
        except TypeError:
            return NotImplemented
        return self.n * o.d == o.n * self.d

    def __ne__(self, o):
        r = self.__eq__(o)
        return r if r is NotImplemented else not r

    def __hash__(self):
        return 0

    def subs(self, mapping):
        return Rat(self.n.subs(mapping), self.d.subs(mapping))

    def as_poly(self):
        if self.d.is_const():
            return self.n / self.d
        q = exact_div(self.n, self.d)
        if q is None:
            raise ValueError("not polynomial: %r" % self)
        return q

    def __repr__(self):
        return "(%r)/(%r)" % (self.n, self.d)


def _lead(p):
    """leading term (monomial key, coefficient) in a fixed total order"""
    # symbols may be strings or uninterpreted applications (Fn): ordered by their text, so that any mix is comparable
    k = max(p.t, key=lambda kk: (sum(e for _, e in kk), tuple((repr(s_), e) for s_, e in kk)))
    return k, p.t[k]


def exact_div(n, d):
    """Polynomial q with q*d == n, or None (multivariate long division, graded-lex order)."""
    if not d.t:
        raise ZeroDivisionError
    q = Poly()
    r = Poly(dict(n.t))
    dk, dc = _lead(d)
    ddict = dict(dk)
    guard = 0
    while r.t:
        guard += 1
        if guard > 10000:
            return None
        rk, rc = _lead(r)
        rd = dict(rk)
        if any(rd.get(s, 0) < e for s, e in ddict.items()):
            return None
        mon = {s: e for s, e in rd.items()}
        for s, e in ddict.items():
            mon[s] = mon.get(s, 0) - e
        mk = tuple(sorted(((s, e) for s, e in mon.items() if e), key=_skey))
        term = Poly({mk: rc / dc})
        q = q + term
        r = r - term * d
    return q


def S(name):
    return Poly.sym(name)


def C(c):
    return Poly.const(c)


class Fn:
    """Uninterpreted function application, e.g. sqrt(p): equal iff same name and equal arguments."""

    __slots__ = ("name", "args")

    def __init__(self, name, *args):
        self.name, self.args = name, args

    def __eq__(self, o):
        return isinstance(o, Fn) and o.name == self.name and len(o.args) == len(self.args) and all(
            a == b for a, b in zip(self.args, o.args))

    def __hash__(self):
        return hash(self.name)

    def __repr__(self):
        return "%s(%s)" % (self.name, ", ".join(map(repr, self.args)))
