"""Command line: ./vcheck <id> --tier quick|thorough | all | replay <file> | selftest."""
from __future__ import annotations

import argparse
import importlib
import json
import os
import sys
import traceback

from .report import Run
from .source import AnalysisError, SourceTree

PROPS = ["C%02d" % i for i in range(1, 21)]


def repo_path():
    return os.environ.get("VERIF_REPO", "/repo")


def run_property(pid, tier="quick", seed=0, tree=None, write=True, quiet=False):
    """Run all rules of one property; returns the finished Run."""
    if tree is None:
        tree = SourceTree(repo_path())
    run = Run(pid, tier=tier, seed=seed, tree=tree, quiet=quiet)
    mod = importlib.import_module("sa.rules.%s" % pid.lower())
    for fn in mod.RULES:
        run.run_rule(fn, tree)
    if tier == "thorough":
        for fn in getattr(mod, "THOROUGH_RULES", []):
            run.run_rule(fn, tree)
        if tree.overlay == {} and not os.environ.get("VERIF_NO_SELFTEST"):
            # mutation self-test of this property's rules on in-memory overlays of the CURRENT tree: reported in the
            # evidence; it never changes the verdict on /repo (a stale overlay only means the source moved on)
            try:
                from .selftest import battery
                res = battery(only_props=[pid])
                summary = {"mutants": len(res), "killed": sum(1 for r in res if r[2] == "killed"),
                           "survived": [r[1] for r in res if r[2] == "SURVIVED"], "stale": [r[1] for r in res if r[2] == "stale"],
                           "killed_by_this_property": sum(1 for r in res if r[4].get(pid) == 1)}
                run.extra["selftest"] = summary
            except Exception as e:  # never let the self-test break a check
                run.extra["selftest"] = {"error": "%s: %s" % (type(e).__name__, e)}
    run.finish(mod.EXPLANATION, mod.NOT_DECIDED, getattr(mod, "TRUSTED", ()), write=write)
    return run


def main(argv=None):
    argv = list(sys.argv[1:] if argv is None else argv)
    if not argv:
        print(__doc__)
        return 2
    cmd = argv[0]
    if cmd == "selftest":
        from .selftest import main as st_main
        return st_main(argv[1:])
    if cmd == "replay":
        return replay(argv[1])
    ap = argparse.ArgumentParser()
    ap.add_argument("prop")
    ap.add_argument("--tier", default=os.environ.get("VERIF_TIER", "quick"), choices=["quick", "thorough"])
    args = ap.parse_args(argv)
    try:
        seed = int(os.environ.get("VERIF_SEED", "0"))
    except ValueError:
        seed = 0
    ids = PROPS if args.prop == "all" else [args.prop.upper()]
    worst = 0
    # wall-clock guard: an analysis that does not terminate is an analysis error (fail closed), never a hang
    try:
        limit = int(os.environ.get("VERIF_TIMEOUT", "900" if args.tier == "quick" else "3600"))
    except ValueError:
        limit = 900

    class _Timeout(BaseException):
        pass

    def _on_alarm(signum, frame):
        raise _Timeout()
    import signal
    have_alarm = hasattr(signal, "SIGALRM")
    if have_alarm:
        signal.signal(signal.SIGALRM, _on_alarm)
    for pid in ids:
        if pid not in PROPS:
            print("ANALYSIS-ERROR unknown property %s" % pid)
            return 2
        try:
            if have_alarm:
                signal.alarm(limit)
            try:
                run = run_property(pid, args.tier, seed, write=not os.environ.get("VERIF_NO_EVIDENCE"))
            finally:
                if have_alarm:
                    signal.alarm(0)
            code = run.exit_code
        except _Timeout:
            print("ANALYSIS-ERROR property=%s the analysis did not finish within %d s (VERIF_TIMEOUT): no verdict" % (pid, limit))
            code = 2
        except AnalysisError as e:
            print("ANALYSIS-ERROR property=%s %s: %s" % (pid, type(e).__name__, e))
            code = 2
        except Exception as e:
            traceback.print_exc()
            print("ANALYSIS-ERROR property=%s checker-exception %s: %s" % (pid, type(e).__name__, e))
            code = 2
        if code == 1 or (code == 2 and worst == 0):
            worst = code
    return worst


def replay(path):
    with open(path) as f:
        rec = json.load(f)
    pid = rec["property"]
    run = run_property(pid, rec.get("tier", "quick"), 0, write=False, quiet=True)
    hits = [o for o in run.obs if o.rule == rec["rule"] and o.construct == rec["construct"]]
    print("replay %s rule %s construct %s" % (pid, rec["rule"], rec["construct"]))
    if not hits:
        print("  the construct is no longer produced by the rule on the current tree (recorded: %s)" % rec.get("where"))
        return 0
    code = 0
    for o in hits:
        print("  now: %s at %s" % (o.status, o.where))
        if o.detail:
            print("  %s" % o.detail)
        if o.family and o.status != "holds":
            print("  counter-example family: %s" % o.family)
        if o.status == "violated":
            print("VIOLATION property=%s replay=%s" % (pid, path))
            code = 1
        elif o.status == "unresolved" and code == 0:
            code = 2
    return code


if __name__ == "__main__":
    sys.exit(main())
