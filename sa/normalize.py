"""Behaviour-preserving AST normalisations shared by the analyses (they see the same program in a form they understand).

unroll_constant_loops: `for v in <constant tuple of constants>: body` (also `for v, w in zip(<constant tuple>, expr)` and
`for i, v in enumerate(<constant tuple>)`) becomes the sequence of bodies with v replaced by each constant; inside, `getattr(o, "a")`
becomes `o.a` and `setattr(o, "a", e)` becomes `o.a = e`.  `for a, b in (("u", u), ("v", v))` (rows of constants and plain names written
in place) is unrolled the same way.  Loops whose body contains break/continue/else are left alone."""
from __future__ import annotations

import ast
import copy


def _const_seq(tree, fi, node):
    """the tuple of python constants `node` denotes, or None"""
    if isinstance(node, (ast.Tuple, ast.List)) and all(isinstance(e, ast.Constant) for e in node.elts):
        return [e.value for e in node.elts]
    if isinstance(node, ast.Constant) and isinstance(node.value, str):
        return list(node.value)
    if isinstance(node, ast.Attribute) and isinstance(node.value, ast.Name):
        ci = None
        if node.value.id in ("self", "cls") and getattr(fi, "cls", None) is not None:
            ci = fi.cls
        else:
            r = tree.resolve_name(fi.module, node.value.id)
            if hasattr(r, "methods") and hasattr(r, "node"):
                ci = r
        if ci is not None:
            for c in tree.mro(ci):
                for st in c.node.body:
                    if isinstance(st, ast.Assign) and len(st.targets) == 1 and isinstance(st.targets[0], ast.Name) and st.targets[0].id == node.attr:
                        return _const_seq(tree, fi, st.value)
        return None
    if isinstance(node, ast.Name):
        r = tree.resolve_name(fi.module, node.id)
        if isinstance(r, tuple) and r and r[0] == "value":
            return _const_seq(tree, fi, r[2])
    return None


class _Subst(ast.NodeTransformer):
    def __init__(self, mapping):
        self.mapping = mapping

    def visit_Name(self, node):
        if isinstance(node.ctx, ast.Load) and node.id in self.mapping:
            return ast.copy_location(copy.deepcopy(self.mapping[node.id]), node)
        return node

    def visit_Call(self, node):
        self.generic_visit(node)
        if isinstance(node.func, ast.Name) and node.func.id == "getattr" and len(node.args) == 2 and not node.keywords and \
                isinstance(node.args[1], ast.Constant) and isinstance(node.args[1].value, str) and node.args[1].value.isidentifier():
            return ast.copy_location(ast.Attribute(value=node.args[0], attr=node.args[1].value, ctx=ast.Load()), node)
        return node

    def visit_Expr(self, node):
        self.generic_visit(node)
        c = node.value
        if isinstance(c, ast.Call) and isinstance(c.func, ast.Name) and c.func.id == "setattr" and len(c.args) == 3 and not c.keywords and \
                isinstance(c.args[1], ast.Constant) and isinstance(c.args[1].value, str) and c.args[1].value.isidentifier():
            tgt = ast.Attribute(value=c.args[0], attr=c.args[1].value, ctx=ast.Store())
            return ast.copy_location(ast.Assign(targets=[ast.copy_location(tgt, node)], value=c.args[2], lineno=node.lineno), node)
        return node


def _stores(body, names):
    for st in body:
        for n in ast.walk(st):
            if isinstance(n, ast.Name) and isinstance(n.ctx, (ast.Store, ast.Del)) and n.id in names:
                return True
    return False


def _has_jump(body):
    for st in body:
        for n in ast.walk(st):
            if isinstance(n, (ast.Break, ast.Continue)):
                return True
    return False


class _Unroller(ast.NodeTransformer):
    def __init__(self, tree, fi):
        self.tree, self.fi = tree, fi

    def visit_FunctionDef(self, node):
        self.generic_visit(node)
        return node

    def visit_For(self, node):
        self.generic_visit(node)
        if node.orelse or _has_jump(node.body):
            return node
        plans = None
        it = node.iter
        if isinstance(node.target, ast.Name):
            seq = _const_seq(self.tree, self.fi, it)
            if seq is not None:
                plans = [{node.target.id: ast.Constant(value=c)} for c in seq]
        elif isinstance(node.target, ast.Tuple) and len(node.target.elts) == 2 and all(isinstance(e, ast.Name) for e in node.target.elts) and \
                isinstance(it, ast.Call) and isinstance(it.func, ast.Name) and not it.keywords:
            a, b = (e.id for e in node.target.elts)
            if it.func.id == "zip" and len(it.args) == 2:
                s0, s1 = _const_seq(self.tree, self.fi, it.args[0]), _const_seq(self.tree, self.fi, it.args[1])
                if s0 is not None and s1 is not None:
                    plans = [{a: ast.Constant(value=x), b: ast.Constant(value=y)} for x, y in zip(s0, s1)]
                elif s0 is not None and isinstance(it.args[1], (ast.Name, ast.Attribute)):
                    plans = [{a: ast.Constant(value=x), b: ast.Subscript(value=copy.deepcopy(it.args[1]), slice=ast.Constant(value=i), ctx=ast.Load())} for i, x in enumerate(s0)]
            elif it.func.id == "enumerate" and len(it.args) == 1:
                s0 = _const_seq(self.tree, self.fi, it.args[0])
                if s0 is not None:
                    plans = [{a: ast.Constant(value=i), b: ast.Constant(value=x)} for i, x in enumerate(s0)]
        if plans is None and isinstance(node.target, ast.Tuple) and all(isinstance(e, ast.Name) for e in node.target.elts) and isinstance(it, (ast.Tuple, ast.List)) and \
                it.elts and all(isinstance(r, (ast.Tuple, ast.List)) and len(r.elts) == len(node.target.elts) and
                                all(isinstance(x, (ast.Constant, ast.Name)) or (isinstance(x, ast.Attribute) and isinstance(x.value, ast.Name)) for x in r.elts) for r in it.elts):
            # for a, b in (("u", u), ("v", v)): rows written out in place, made of constants and plain names
            srcs = {x.id if isinstance(x, ast.Name) else x.value.id for r in it.elts for x in r.elts if not isinstance(x, ast.Constant)}
            if not _stores(node.body, srcs):
                plans = [{t.id: copy.deepcopy(x) for t, x in zip(node.target.elts, r.elts)} for r in it.elts]
        if plans is None or len(plans) > 16:
            return node
        names = set().union(*[set(p) for p in plans]) if plans else set()
        if _stores(node.body, names):
            return node
        out = []
        for p in plans:
            for st in node.body:
                new = _Subst(p).visit(copy.deepcopy(st))
                ast.fix_missing_locations(new)
                out.append(new)
        return out or [ast.copy_location(ast.Pass(), node)]


_CACHE = {}


def unroll_constant_loops(tree, fi):
    key = (id(tree), fi.qual, id(fi.node))
    if key not in _CACHE:
        if any(isinstance(n, ast.For) for n in ast.walk(fi.node)) or any(isinstance(n, ast.Name) and n.id in ("getattr", "setattr") for n in ast.walk(fi.node)):
            new = copy.deepcopy(fi.node)
            new = _Unroller(tree, fi).visit(new)
            new = _Subst({}).visit(new)
            ast.fix_missing_locations(new)
            _CACHE[key] = new
        else:
            _CACHE[key] = fi.node
    return _CACHE[key]


# =============================================================================== match statements -> if chains
class _MatchDesugar(ast.NodeTransformer):
    """`match` statements rewritten into the if-chains they abbreviate, so that every analysis sees constructs it knows.  Supported
    patterns: literals and dotted names (==), None/True/False (is), class patterns without sub-patterns or with keyword/positional
    captures of attributes declared by __match_args__ are NOT supported (isinstance only), sequences of simple patterns, `|`, captures,
    `_`, `as`, guards.  Anything else is left as it is (the analyses then report the statement as unsupported: fail closed)."""

    def __init__(self):
        self.n = 0

    def _test(self, pat, subj):
        """(test expression or None for irrefutable, [assignments]) or raise NotImplementedError"""
        L = lambda: copy.deepcopy(subj)
        if isinstance(pat, ast.MatchValue):
            return ast.Compare(left=L(), ops=[ast.Eq()], comparators=[pat.value]), []
        if isinstance(pat, ast.MatchSingleton):
            return ast.Compare(left=L(), ops=[ast.Is()], comparators=[ast.Constant(value=pat.value)]), []
        if isinstance(pat, ast.MatchAs):
            if pat.pattern is None:
                binds = [] if pat.name is None else [ast.Assign(targets=[ast.Name(id=pat.name, ctx=ast.Store())], value=L(), lineno=0)]
                return None, binds
            t, b = self._test(pat.pattern, subj)
            return t, b + [ast.Assign(targets=[ast.Name(id=pat.name, ctx=ast.Store())], value=L(), lineno=0)]
        if isinstance(pat, ast.MatchClass):
            if pat.patterns or pat.kwd_patterns:
                raise NotImplementedError
            return ast.Call(func=ast.Name(id="isinstance", ctx=ast.Load()), args=[L(), pat.cls], keywords=[]), []
        if isinstance(pat, ast.MatchOr):
            tests = []
            for p in pat.patterns:
                t, b = self._test(p, subj)
                if b:
                    raise NotImplementedError
                if t is None:
                    return None, []
                tests.append(t)
            return ast.BoolOp(op=ast.Or(), values=tests), []
        if isinstance(pat, ast.MatchSequence):
            if any(isinstance(p, ast.MatchStar) for p in pat.patterns):
                raise NotImplementedError
            tests = [ast.Call(func=ast.Name(id="isinstance", ctx=ast.Load()), args=[L(), ast.Tuple(elts=[ast.Name(id="list", ctx=ast.Load()), ast.Name(id="tuple", ctx=ast.Load())], ctx=ast.Load())], keywords=[]),
                     ast.Compare(left=ast.Call(func=ast.Name(id="len", ctx=ast.Load()), args=[L()], keywords=[]), ops=[ast.Eq()], comparators=[ast.Constant(value=len(pat.patterns))])]
            binds = []
            for i, p in enumerate(pat.patterns):
                t, b = self._test(p, ast.Subscript(value=L(), slice=ast.Constant(value=i), ctx=ast.Load()))
                if t is not None:
                    tests.append(t)
                binds += b
            return ast.BoolOp(op=ast.And(), values=tests), binds
        raise NotImplementedError

    def visit_Match(self, node):
        self.generic_visit(node)
        self.n += 1
        pre = []
        if isinstance(node.subject, ast.Name):
            subj = ast.Name(id=node.subject.id, ctx=ast.Load())
        else:
            tmp = "__match_subject_%d" % self.n
            pre.append(ast.Assign(targets=[ast.Name(id=tmp, ctx=ast.Store())], value=node.subject, lineno=node.lineno))
            subj = ast.Name(id=tmp, ctx=ast.Load())
        try:
            cases = [(c,) + self._test(c.pattern, subj) for c in node.cases]
        except NotImplementedError:
            return node
        TRUE = lambda: ast.Constant(value=True)
        if not any(c.guard is not None for c, _, _ in cases):
            chain = None
            for c, t, binds in reversed(cases):
                body = binds + c.body
                if t is None:
                    chain = body
                else:
                    chain = [ast.If(test=t, body=body, orelse=chain or [])]
            out = pre + (chain or [])
        else:
            flag = "__match_done_%d" % self.n
            out = pre + [ast.Assign(targets=[ast.Name(id=flag, ctx=ast.Store())], value=ast.Constant(value=False), lineno=node.lineno)]
            for c, t, binds in cases:
                notdone = ast.UnaryOp(op=ast.Not(), operand=ast.Name(id=flag, ctx=ast.Load()))
                cond = notdone if t is None else ast.BoolOp(op=ast.And(), values=[notdone, t])
                setdone = ast.Assign(targets=[ast.Name(id=flag, ctx=ast.Store())], value=TRUE(), lineno=node.lineno)
                inner = [setdone] + c.body
                if c.guard is not None:
                    inner = [ast.If(test=c.guard, body=inner, orelse=[])]
                out.append(ast.If(test=cond, body=binds + inner, orelse=[]))
        for st in out:
            for x in ast.walk(st):
                if not getattr(x, "lineno", None):
                    x.lineno = node.lineno
                    x.col_offset = node.col_offset
                if not getattr(x, "end_lineno", None):
                    x.end_lineno = getattr(node, "end_lineno", node.lineno)
                    x.end_col_offset = 0
        return out


def desugar_match(module_tree):
    """in place: every supported `match` statement of the module becomes an if-chain"""
    if any(isinstance(n, ast.Match) for n in ast.walk(module_tree)):
        _MatchDesugar().visit(module_tree)
        ast.fix_missing_locations(module_tree)
    return module_tree
