import numpy as np, osyris, io, contextlib, tempfile, shutil, synth_ramses as synth
P = tempfile.mkdtemp(prefix="osyris_witness_")
synth.write_output(P)
u=osyris.units("cm")
ds3 = osyris.RamsesDataset(1, path=P)
with contextlib.redirect_stdout(io.StringIO()):
    ds3.load(select={"mesh": {"position_x": lambda x: x < 0.4*u, "position_y": lambda x: x < 0.4*u, "position_z": lambda x: x < 0.4*u}})
print("cpu_list after positional select:", ds3.loader.readers["amr"].cpu_list, "cells:", len(ds3["mesh"]["dx"].values))
with contextlib.redirect_stdout(io.StringIO()):
    ds3.load(select=["part"])
    fresh = osyris.RamsesDataset(1, path=P).load(select=["part"])
print("C15: part rows after history:", len(ds3["part"]["mass"].values), "fresh:", len(fresh["part"]["mass"].values))
# C04 sanity: selective == filter of full
with contextlib.redirect_stdout(io.StringIO()):
    full = osyris.RamsesDataset(1, path=P).load()
m=full["mesh"]; c=(m["position"].x<0.4*u)&(m["position"].y<0.4*u)&(m["position"].z<0.4*u)
print("C04: filtered full:", int(c.values.sum()), "selective:", len(ds3["mesh"]["dx"].values))

shutil.rmtree(P, ignore_errors=True)
