import ast, itertools
src = open("/repo/src/osyris/io/hilbert.py").read()
tree = ast.parse(src)
fn = [n for n in tree.body if isinstance(n, ast.FunctionDef) and n.name == "_hilbert3d"][0]
# find the list literal & reshape args statically
lst = None; shape=None; order=None
for n in ast.walk(fn):
    if isinstance(n, ast.Call) and isinstance(n.func, ast.Attribute) and n.func.attr == "reshape":
        shape = ast.literal_eval(n.args[0]); order = [k.value.value for k in n.keywords if k.arg=="order"][0]
        inner = n.func.value
        lst = ast.literal_eval(inner.args[0])
print(len(lst), shape, order)
# F-order reshape (8,2,12): element [a,b,c] = lst[a + 8*b + 16*c]
def sd(a,b,c): return lst[a + shape[0]*b + shape[0]*shape[1]*c]
ok = True
for c in range(12):
    nxt = [sd(a,0,c) for a in range(8)]; hd = [sd(a,1,c) for a in range(8)]
    if sorted(hd) != list(range(8)): ok=False; print("state",c,"hdigit not a permutation", hd)
    if not all(0<=s<12 for s in nxt): ok=False
print("per-state bijection & closure:", ok)
# reachability of states from 0
seen={0}; todo=[0]
while todo:
    c=todo.pop()
    for a in range(8):
        s=sd(a,0,c)
        if s not in seen: seen.add(s); todo.append(s)
print("reachable states:", sorted(seen))
# continuity: own re-implementation of the automaton from the table
def key(x,y,z,L):
    cs=0; k=0
    for i in range(L-1,-1,-1):
        b2=(x>>i)&1; b1=(y>>i)&1; b0=(z>>i)&1
        s=b2*4+b1*2+b0
        ns=sd(s,0,cs); h=sd(s,1,cs)
        k=(k<<3)|h; cs=ns
    return k
for L in (1,2,3,4):
    n=2**L
    inv={}
    for x,y,z in itertools.product(range(n),repeat=3):
        inv[key(x,y,z,L)]=(x,y,z)
    assert len(inv)==n**3
    cont = all(sum(abs(a-b) for a,b in zip(inv[k],inv[k+1]))==1 for k in range(n**3-1))
    print("L",L,"bijective", len(inv)==n**3, "continuous(unit steps):", cont, "start", inv[0], "end", inv[n**3-1])
