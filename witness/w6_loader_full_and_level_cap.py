import numpy as np, osyris, tempfile, shutil, synth_ramses as synth
P = tempfile.mkdtemp(prefix="osyris_witness_")
d, octs, leaves = synth.write_output(P)
ds = osyris.RamsesDataset(1, path=P).load()
m = ds["mesh"]
print(m.keys())
lv = m["level"].values; dx = m["dx"].values
print("ncells", len(lv), "expected", len(leaves), "| volume (code units):", np.sum((dx/ (1.0*2.0))**3))
# compare positions to truth
pos = np.stack([m["position"].x.values, m["position"].y.values, m["position"].z.values],1)/2.0
truth = sorted((l, c, p) for l,c,p in leaves)
got = sorted((int(l), int(c), tuple(np.round(p,6))) for l,c,p in zip(lv, m["cpu"].values, pos))
print("leaf set equal:", [ (a[0],a[1],tuple(np.round(a[2],6))) for a in truth] == got)
# density value check: val = 1 + x + 2y + 4z scaled by unit_d=3
dens = m["density"].values; exp = (1.0 + pos[:,0] + 2*pos[:,1] + 4*pos[:,2])*3.0
print("density ok:", np.allclose(dens, exp), m["density"].unit, "| velocity unit", m["velocity"].unit, "| part keys", list(ds["part"].keys()), ds.meta["nparticles"])
print("part identity", ds["part"]["identity"].values, ds["part"]["family"].values)
# C12: level-limited load
ds2 = osyris.RamsesDataset(1, path=P).load(select={"mesh": {"level": lambda l: l < 3}})
l2 = ds2["mesh"]["level"].values; dx2 = ds2["mesh"]["dx"].values
print("C12: lmax meta:", ds2.meta["lmax"], "| levels:", np.unique(l2), "| n:", len(l2), "| volume:", np.sum((dx2/2.0)**3), "(should be 1.0 when truncated tree tiles domain)")
# C15: history
ds3 = osyris.RamsesDataset(1, path=P)
ds3.load(select={"mesh": {"position_x": lambda x: x < 0.2*osyris.units("cm")}})
print("C15: cpu_list after positional select:", ds3.loader.readers["amr"].cpu_list)
ds3.load(select=["part"])
fresh = osyris.RamsesDataset(1, path=P).load(select=["part"])
print("C15: part rows after history:", len(ds3["part"]["mass"].values), "fresh:", len(fresh["part"]["mass"].values))

shutil.rmtree(P, ignore_errors=True)
