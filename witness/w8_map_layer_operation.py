"""C19 witness: a Layer-level `operation` must win over the call-level one; osyris.map ignores it."""
import numpy as np, osyris
from osyris import Array, Vector, Datagroup, units
n = 4; dx = 1.0 / n; c = (np.arange(n) + 0.5) * dx
X, Y, Z = np.meshgrid(c, c, c, indexing="ij")
dg = Datagroup()
dg["position"] = Vector(X.ravel(), Y.ravel(), Z.ravel(), unit="cm")
dg["dx"] = Array(np.full(n**3, dx), unit="cm")
dg["density"] = Array(np.full(n**3, 2.0), unit="g/cm**3")
kw = dict(dx=1.0 * units("cm"), dz=1.0 * units("cm"), origin=Vector(0.5, 0.5, 0.5, unit="cm"), resolution=4, plot=False)
a = osyris.map(dg.layer("density", operation="mean"), **kw)           # call-level default is 'sum'
b = osyris.map(dg.layer("density"), operation="mean", **kw)
print("layer-level operation='mean':", float(a.layers[0]["data"][0, 0]), a.layers[0]["unit"], "(expected 2.0 g/cm^3)")
print("call-level  operation='mean':", float(b.layers[0]["data"][0, 0]), b.layers[0]["unit"])
