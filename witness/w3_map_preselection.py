import numpy as np, osyris
from osyris import Array, Vector, Datagroup, Dataset, units
import matplotlib; matplotlib.use("Agg")
# uniform 2^3 mesh on [0,1]^3, cells size .5
def mesh(level):
    n = 2**level; dx = 1.0/n
    c = (np.arange(n)+0.5)*dx
    X,Y,Z = np.meshgrid(c,c,c,indexing="ij")
    dg = Datagroup()
    dg["position"] = Vector(X.ravel(),Y.ravel(),Z.ravel(),unit="cm")
    dg["dx"] = Array(np.full(n**3,dx),unit="cm")
    dg["density"] = Array(np.arange(n**3,dtype=float)+1,unit="g/cm**3")
    return dg
dg = mesh(1)
origin = Vector(0.26,0.27,0.28,unit="cm")
# small window inside one big cell
for w in [2.0, 0.5, 0.1, 0.01]:
    try:
        p = osyris.map(dg.layer("density"), dx=w*units("cm"), origin=origin, direction="z", resolution=8, plot=False)
        d = p.layers[0]["data"]
        print("window",w,"masked pixels:", int(np.ma.getmaskarray(d).sum()), "of", d.size)
    except Exception as e: print("window",w,type(e).__name__,e)
# thick, thin slab vs big cell; origin z far from cell centre (cell centres at .25,.75)
origin = Vector(0.5,0.5,0.02,unit="cm")
for dz in [1.0, 0.2, 0.05]:
    try:
        p = osyris.map(dg.layer("density"), dx=1.0*units("cm"), dz=dz*units("cm"), origin=origin, direction="z", resolution=8, plot=False, operation="nanmean")
        d = p.layers[0]["data"]
        print("dz",dz,"masked pixels:", int(np.ma.getmaskarray(d).sum()), "of", d.size)
    except Exception as e: print("dz",dz,type(e).__name__,e)
# C19 resolution dict mutation
res = {"x": 8}
p = osyris.map(dg.layer("density"), dx=1.0*units("cm"), dz=0.5*units("cm"), origin=Vector(0.5,0.5,0.5,unit="cm"), resolution=res, plot=False)
print("resolution dict after call:", res)
