import numpy as np, osyris
from osyris import Array, Vector, Datagroup, Dataset, units
import warnings
# C02 dtype whitelist
a32 = Array(np.array([1,2,3],dtype=np.float32), unit="m")
print("f32 add:", (a32+a32).unit, "| mul:", (a32*a32).unit, "| neg:", (-a32).unit)
i32 = Array(np.array([1,2,3],dtype=np.int32), unit="m")
print("i32 add:", (i32+i32).unit, (i32+i32).dtype)
i64 = Array(np.array([1,2,3],dtype=np.int64), unit="m")
print("i64 add:", (i64+i64).unit)
print("units(None):", repr(units(None)), "| cmp unit:", (a32<a32).unit)
# in-place with float32
b = Array(np.array([1,2,3],dtype=np.float32), unit="m"); b += b; print("f32 iadd unit:", b.unit)
# C09 dot with mixed units
v = Vector(1.,2.,3., unit="m"); w = Vector(100.,200.,300., unit="cm")
d = v.dot(w); print("dot:", d.values, d.unit, " expected 14 m^2 =", (14*units("m")**2).to if False else "14 m**2")
print("dot in m^2:", d.to("m**2").values)
c = v.cross(w); print("cross:", c.x.values, c.unit)
# C20 eq
g1 = Datagroup({"a": Array([1.,2.,3.],unit="m")}); g2 = Datagroup({"a": Array([1.,2.,4.],unit="m")})
print("eq partly different:", g1==g2)
g3 = Datagroup({"a": Array([7.,8.,9.],unit="m")}); print("eq wholly different:", g1==g3)
# C16
ds = Dataset(); ds["mesh"] = Datagroup({"position": Vector(np.array([0.,1.,2.]),np.array([0.,1.,2.]),np.array([0.,1.,2.]),unit="cm"), "density": Array([1.,2.,3.],unit="g/cm**3")})
try:
    osyris.extract_sphere(ds, radius=Array(1.5,unit="cm"), origin=Vector(0,0,0,unit="cm"))
    print("extract ok")
except Exception as e: print("extract_sphere err:", type(e).__name__, e)
# Array.to aliasing / name
x = Array([1.,2.], unit="m", name="foo"); print("to same is self:", x.to("m") is x, "| name after to:", repr(x.to("cm").name))
# comparisons incompatible
try: print(x < Array([1.,2.],unit="s"))
except Exception as e: print("cmp incompatible:", type(e).__name__)
try: print(x == Array([1.,2.],unit="s"))
except Exception as e: print("eq incompatible:", type(e).__name__)
print("x<1.5 float:", end=" ")
try: print((x < 1.5).values)
except Exception as e: print(type(e).__name__, e)
