"""Throwaway: write a tiny synthetic RAMSES output (3-D, 2 CPUs, levels 1..3) per output_amr.f90/output_hydro.f90 layout."""
import os, struct, numpy as np, shutil

def rec(f, fmt, *vals):
    payload = struct.pack("=" + fmt, *vals)
    f.write(struct.pack("=i", len(payload))); f.write(payload); f.write(struct.pack("=i", len(payload)))

def build_tree():
    # octs: dict level -> list of dict(center(3), son[8] (child oct index at level+1, 1-based within level+1 or 0), owner cpu)
    # level1: one oct at centre (.5,.5,.5)
    octs = {1: [], 2: [], 3: []}
    octs[1].append(dict(c=np.array([.5,.5,.5]), son=[0]*8, cpu=1))
    def child_center(c, ind, lvl):
        dx = 0.5**lvl
        iz = ind//4; iy=(ind-4*iz)//2; ix = ind-2*iy-4*iz
        return c + (np.array([ix,iy,iz]) - 0.5)*dx
    # refine cells 0,3,7 of level-1 oct -> level2 octs
    for ind in (0,3,7):
        o = dict(c=child_center(octs[1][0]["c"], ind, 1), son=[0]*8, cpu=1 if ind<4 else 2)
        octs[2].append(o); octs[1][0]["son"][ind] = len(octs[2])
    # refine cell 5 of first level2 oct and cell 2 of third level2 oct -> level 3
    for (io, ind) in ((0,5),(2,2),(2,6)):
        par = octs[2][io]
        o = dict(c=child_center(par["c"], ind, 2), son=[0]*8, cpu=par["cpu"])
        octs[3].append(o); par["son"][ind] = len(octs[3])
    return octs

def write_output(path, nout=1, ncpu=2, levelmax=3, nvar=5, ghosts=True, hydro_names=("density","velocity_x","velocity_y","velocity_z","pressure")):
    d = os.path.join(path, f"output_{nout:05d}")
    shutil.rmtree(d, ignore_errors=True); os.makedirs(d)
    octs = build_tree(); ndim=3; nboundary=0; noutput=2
    truth = []  # leaf cells: (level, cpu, center, values)
    rng = np.random.default_rng(1)
    # cell values: deterministic function of center and var
    def val(c, iv): return 1.0 + iv*10 + c[0] + 2*c[1] + 4*c[2]
    for cpu in range(1, ncpu+1):
        # grids present in this file per (level, domain): own + (ghost: all grids of other cpu)
        grids = {}
        for lvl in (1,2,3):
            for dom in range(1, ncpu+1):
                if dom == cpu or ghosts:
                    g = [o for o in octs[lvl] if o["cpu"] == dom]
                else:
                    g = []
                grids[(lvl,dom)] = g
        with open(os.path.join(d, f"amr_{nout:05d}.out{cpu:05d}"), "wb") as f:
            rec(f,"i",ncpu); rec(f,"i",ndim); rec(f,"3i",1,1,1); rec(f,"i",levelmax); rec(f,"i",100); rec(f,"i",nboundary)
            rec(f,"i",sum(len(v) for v in grids.values())); rec(f,"d",1.0)
            rec(f,"3i",noutput,1,1); rec(f,f"{noutput}d",*([0.]*noutput)); rec(f,f"{noutput}d",*([0.]*noutput)); rec(f,"d",0.5)
            rec(f,f"{levelmax}d",*([.1]*levelmax)); rec(f,f"{levelmax}d",*([.2]*levelmax))
            rec(f,"2i",3,3); rec(f,"3d",0,0,0); rec(f,"7d",*([0.]*7)); rec(f,"5d",*([0.]*5)); rec(f,"d",0.)
            n = ncpu*levelmax
            rec(f,f"{n}i",*([0]*n)); rec(f,f"{n}i",*([0]*n))
            numbl = [len(grids[(lvl,dom)]) for lvl in (1,2,3) for dom in range(1,ncpu+1)]  # cpu fastest
            rec(f,f"{n}i",*numbl)
            rec(f,f"{10*levelmax}i",*([0]*(10*levelmax)))
            rec(f,"5i",0,0,0,0,0)
            rec(f,"128s",b"hilbert".ljust(128))
            rec(f,f"{ncpu+1}d",*np.linspace(0,8**(levelmax+1),ncpu+1))
            rec(f,"i",0); rec(f,"i",0); rec(f,"i",0)   # son, flag1, cpu_map of coarse (ncoarse=1)
            for lvl in (1,2,3):
                for dom in range(1,ncpu+1):
                    g = grids[(lvl,dom)]; nc=len(g)
                    if nc==0: continue
                    rec(f,f"{nc}i",*range(1,nc+1)); rec(f,f"{nc}i",*([0]*nc)); rec(f,f"{nc}i",*([0]*nc))
                    for dim in range(ndim): rec(f,f"{nc}d",*[o["c"][dim] for o in g])
                    rec(f,f"{nc}i",*([0]*nc))
                    for _ in range(2*ndim): rec(f,f"{nc}i",*([0]*nc))
                    for ind in range(8): rec(f,f"{nc}i",*[o["son"][ind] for o in g])
                    for ind in range(8): rec(f,f"{nc}i",*[o["cpu"] for o in g])
                    for ind in range(8): rec(f,f"{nc}i",*([0]*nc))
        with open(os.path.join(d, f"hydro_{nout:05d}.out{cpu:05d}"), "wb") as f:
            rec(f,"i",ncpu); rec(f,"i",nvar); rec(f,"i",ndim); rec(f,"i",levelmax); rec(f,"i",nboundary); rec(f,"d",1.4)
            for lvl in (1,2,3):
                for dom in range(1,ncpu+1):
                    g = grids[(lvl,dom)]; nc=len(g)
                    rec(f,"i",lvl); rec(f,"i",nc)
                    if nc==0: continue
                    for ind in range(8):
                        for iv in range(nvar):
                            vals=[]
                            for o in g:
                                dx=0.5**lvl; iz=ind//4; iy=(ind-4*iz)//2; ix=ind-2*iy-4*iz
                                c=o["c"]+(np.array([ix,iy,iz])-0.5)*dx
                                vals.append(val(c,iv))
                            rec(f,f"{nc}d",*vals)
        # particles: cpu has 3*cpu particles
        npart = 3*cpu
        with open(os.path.join(d, f"part_{nout:05d}.out{cpu:05d}"), "wb") as f:
            rec(f,"i",ncpu); rec(f,"i",ndim); rec(f,"i",npart); rec(f,"4i",1,2,3,4); rec(f,"i",0); rec(f,"d",0.); rec(f,"d",0.); rec(f,"i",0)
            for k,(nm,ty) in enumerate([("position_x","d"),("position_y","d"),("position_z","d"),("mass","d"),("identity","i"),("family","b")]):
                if ty=="d": rec(f,f"{npart}d",*[cpu+0.01*i+0.1*k for i in range(npart)])
                elif ty=="i": rec(f,f"{npart}i",*[100*cpu+i for i in range(npart)])
                else: rec(f,f"{npart}b",*[cpu]*npart)
    with open(os.path.join(d,"hydro_file_descriptor.txt"),"w") as f:
        f.write("# version:  1\n# ivar, variable_name, variable_type\n")
        for i,nm in enumerate(hydro_names): f.write(f"  {i+1}, {nm}, d\n")
    with open(os.path.join(d,"part_file_descriptor.txt"),"w") as f:
        f.write("# version:  1\n# ivar, variable_name, variable_type\n")
        for i,(nm,ty) in enumerate([("position_x","d"),("position_y","d"),("position_z","d"),("mass","d"),("identity","i"),("family","b")]): f.write(f"  {i+1}, {nm}, {ty}\n")
    with open(os.path.join(d,f"info_{nout:05d}.txt"),"w") as f:
        f.write(f"ncpu        =  {ncpu}\nndim        =  3\nlevelmin    =  1\nlevelmax    =  {levelmax}\nngridmax    =  100\nnstep_coarse=  3\n\n")
        f.write("boxlen      =  0.100000000000000E+01\ntime        =  0.5E+00\naexp        =  0.1E+01\nH0          =  0.1E+01\n")
        f.write("unit_l      =  0.2E+01\nunit_d      =  0.3E+01\nunit_t      =  0.5E+01\n\nordering type=hilbert\n")
        f.write("   DOMAIN   ind_min                 ind_max\n")
        keys=np.linspace(0,8**(levelmax+1),ncpu+1)
        for i in range(ncpu): f.write(f"       {i+1}   {keys[i]:.15E}    {keys[i+1]:.15E}\n")
    # truth leaves
    leaves=[]
    for lvl in (1,2,3):
        for o in octs[lvl]:
            for ind in range(8):
                if o["son"][ind]==0 or lvl==levelmax:
                    dx=0.5**lvl; iz=ind//4; iy=(ind-4*iz)//2; ix=ind-2*iy-4*iz
                    c=o["c"]+(np.array([ix,iy,iz])-0.5)*dx
                    leaves.append((lvl,o["cpu"],tuple(c)))
    return d, octs, leaves

if __name__=="__main__":
    import tempfile
    P = tempfile.mkdtemp(prefix="osyris_witness_")
    d,octs,leaves=write_output(P)
    print(d, "leaves", len(leaves), "volume", sum(0.5**(3*l) for l,_,_ in leaves))
    shutil.rmtree(P, ignore_errors=True)
