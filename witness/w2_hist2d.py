import numpy as np, osyris, numba
from osyris import Array, Vector, Datagroup, Dataset, units
from osyris.plot.utils import hist2d
# truncation
x = np.array([-0.5, 0.5, 9.5, 10.5]); y = np.array([0.5]*4)
out, counts = hist2d(x, y, np.ones((1,4)), 0.0, 10.0, 10, 0.0, 1.0, 1)
print("counts (x=-0.5 should be excluded):", counts, "sum", counts.sum())
# race
rng = np.random.default_rng(0)
n = 4_000_000
x = rng.random(n)*0.001; y = rng.random(n)*0.001   # all in one bin
print("threads", numba.get_num_threads())
for t in range(3):
    out, counts = hist2d(x, y, np.ones((1,n)), 0.0, 1.0, 4, 0.0, 1.0, 4)
    print("run", t, "count total", counts.sum(), "of", n, " sum", out.sum())
