"""Feasibility prototype (reads source text only): the *naive*, intraprocedural version of the
origin domain D3.  A name is PARAM-reachable if it is a parameter or was assigned from a
name / attribute / subscript / for-target of a PARAM-reachable name (calls, operators, literals
and comprehensions give FRESH).  Sinks: subscript/attribute store, del, augmented assignment,
mutating method call on a PARAM-reachable base.

Purpose: see what the naive version reports on the plot modules, i.e. which reports are real
(map's `resolution`) and which need the field-/key-sensitive, interprocedural version that
DESIGN.md specifies (stores into the copy returned by parse_layer, render's `item["params"]`).
"""
import ast
import sys

FILES = [
    "plot/map.py", "plot/histogram1d.py", "plot/histogram2d.py", "plot/scatter.py", "plot/plot.py",
    "plot/render.py", "plot/parser.py", "plot/direction.py", "plot/wrappers.py", "spatial/subdomain.py",
]
ROOT = sys.argv[1] if len(sys.argv) > 1 else "/repo/src/osyris/"
MUT = {"update", "pop", "append", "extend", "clear", "sort", "setdefault", "insert", "remove", "fill", "sortby"}
EXEMPT = {"ax", "fig", "self"}


def base_name(n):
    while isinstance(n, (ast.Attribute, ast.Subscript)):
        n = n.value
    return n.id if isinstance(n, ast.Name) else None


def is_alias_expr(n, tainted):
    """expression that yields (part of) an existing object rather than a new one"""
    if isinstance(n, ast.Name):
        return n.id in tainted
    if isinstance(n, (ast.Attribute, ast.Subscript)):
        return base_name(n) in tainted
    if isinstance(n, ast.IfExp):
        return is_alias_expr(n.body, tainted) or is_alias_expr(n.orelse, tainted)
    return False


for rel in FILES:
    tree = ast.parse(open(ROOT + rel).read())
    for fn in [n for n in ast.walk(tree) if isinstance(n, ast.FunctionDef)]:
        a = fn.args
        params = {x.arg for x in a.args + a.kwonlyargs} | ({a.vararg.arg} if a.vararg else set())
        # **kwargs is a fresh dict: not PARAM-reachable itself
        tainted = {p for p in params if p not in EXEMPT}
        reports = []
        changed = True
        stmts = [n for n in ast.walk(fn)]
        while changed:  # flow-insensitive closure (over-approximation)
            changed = False
            for n in stmts:
                tgt = val = None
                if isinstance(n, ast.Assign) and len(n.targets) == 1:
                    tgt, val = n.targets[0], n.value
                elif isinstance(n, ast.For):
                    tgt, val = n.target, n.iter
                if tgt is not None and isinstance(tgt, ast.Name) and is_alias_expr(val, tainted) and tgt.id not in tainted:
                    tainted.add(tgt.id)
                    changed = True
        for n in stmts:
            if isinstance(n, (ast.Assign, ast.AugAssign)):
                for t in (n.targets if isinstance(n, ast.Assign) else [n.target]):
                    if isinstance(t, (ast.Subscript, ast.Attribute)) and base_name(t) in tainted:
                        reports.append((n.lineno, "store", ast.unparse(t)))
                    if isinstance(n, ast.AugAssign) and isinstance(t, ast.Name) and t.id in tainted:
                        reports.append((n.lineno, "augassign", t.id))
            elif isinstance(n, ast.Delete):
                for t in n.targets:
                    if base_name(t) in tainted:
                        reports.append((n.lineno, "del", ast.unparse(t)))
            elif isinstance(n, ast.Call) and isinstance(n.func, ast.Attribute) and n.func.attr in MUT:
                if base_name(n.func.value) in tainted:
                    reports.append((n.lineno, "mutating-call", ast.unparse(n.func)))
        for r in sorted(set(reports)):
            print(f"{rel}:{r[0]:4d} {fn.name:24s} {r[1]:14s} {r[2]}")
