"""Witness w10 (C04, fix F16): a selection box of about one level-18 cell on an output with levelmax = 19.

hilbert_cpu_list probes the position predicates on at most 2**18 points per axis.  Before the fix the bounding box handed to the CPU search
ended at the edge of the last selected probe cell although the interval can reach the next probe centre: with real level-19 cells on both
sides of the Hilbert boundary x = 0.5, the selective load opened 1 of the 2 needed CPU files and returned 4 of the 8 qualifying cells.
(Derived from the demonstration of seeded change C04/m2 of round 11, which lowered the cap to 2**12; here the tree is UNCHANGED and only
levelmax is 19.)  Run with the repository on PYTHONPATH; exits 1 when rows are missing.  Not part of any registered check (the checks do
not run osyris): it documents the failing input of the finding."""
import os
import shutil
import struct
import sys
import tempfile

import numpy as np

# --------------------------------------------------------------------------
# Minimal synthetic RAMSES output writer (3-D, nx=ny=nz=1, no boundaries).
# The tree: level 1 = one oct, fully refined; level 2 = 8 octs (one per
# octant); deeper levels refine every cell that contains one of the `targets`
# points.  Every oct of level >= 2 is owned by the CPU whose Hilbert key
# interval contains its father cell; bound keys are octant aligned, so the
# decomposition is a genuine Hilbert decomposition.
# --------------------------------------------------------------------------

# Hilbert order of the 8 octants (ix, iy, iz) at bit_length 1, state 0 of the
# RAMSES state diagram: hdigit for sdigit = 4*ix + 2*iy + iz.
_OCTANT_ORDER = {0: 0, 1: 1, 3: 2, 2: 3, 6: 4, 7: 5, 5: 6, 4: 7}



def octant_order(ix, iy, iz):
    return _OCTANT_ORDER[4 * ix + 2 * iy + iz]


def rec(fmt, *vals):
    data = struct.pack("<" + fmt, *vals)
    n = struct.pack("<i", len(data))
    return n + data + n


def build_tree(levelmax, targets, bounds_oct):
    """bounds_oct: increasing list of octant counts, e.g. [0, 1, 3, 4, 6, 8]"""

    def owner(xc):
        o = octant_order(int(xc[0] >= 0.5), int(xc[1] >= 0.5), int(xc[2] >= 0.5))
        for c in range(len(bounds_oct) - 1):
            if bounds_oct[c] <= o < bounds_oct[c + 1]:
                return c + 1
        raise RuntimeError

    levels = {lev: [] for lev in range(1, levelmax + 1)}
    # level 1 oct: father is the coarse cell; owned by the cpu of its centre
    levels[1].append({"xg": (0.5, 0.5, 0.5), "cpu": owner((0.5, 0.5, 0.5))})
    for lev in range(1, levelmax + 1):
        dx = 0.5**lev
        for oct_ in levels[lev]:
            oct_["son"] = [0] * 8
            for ind in range(8):
                iz = ind // 4
                iy = (ind - 4 * iz) // 2
                ix = ind - 2 * iy - 4 * iz
                c = (
                    oct_["xg"][0] + (ix - 0.5) * dx,
                    oct_["xg"][1] + (iy - 0.5) * dx,
                    oct_["xg"][2] + (iz - 0.5) * dx,
                )
                if lev == levelmax:
                    continue
                refine = lev == 1 or any(
                    all(abs(t[a] - c[a]) < 0.5 * dx for a in range(3)) for t in targets
                )
                if refine:
                    oct_["son"][ind] = 1
                    levels[lev + 1].append({"xg": c, "cpu": owner(c)})
    return levels


def write_output(path, levelmax, targets, bounds_oct, nout=1):
    ncpu = len(bounds_oct) - 1
    levels = build_tree(levelmax, targets, bounds_oct)
    tag = str(nout).zfill(5)
    out = os.path.join(path, "output_" + tag)
    os.makedirs(out)
    octkey = 2 ** (3 * levelmax)  # key width of one octant (levelmax+1 bits/axis)
    bkeys = [b * octkey for b in bounds_oct]

    with open(os.path.join(out, "info_" + tag + ".txt"), "w") as f:
        f.write("ncpu        = %10d\n" % ncpu)
        f.write("ndim        = %10d\n" % 3)
        f.write("levelmin    = %10d\n" % 2)
        f.write("levelmax    = %10d\n" % levelmax)
        f.write("ngridmax    = %10d\n" % 10000)
        f.write("nstep_coarse= %10d\n" % 0)
        f.write("\n")
        for k, v in [
            ("boxlen", 1.0),
            ("time", 0.0),
            ("aexp", 1.0),
            ("H0", 1.0),
            ("omega_m", 1.0),
            ("omega_l", 0.0),
            ("omega_k", 0.0),
            ("omega_b", 0.0),
            ("unit_l", 1.0),
            ("unit_d", 1.0),
            ("unit_t", 1.0),
        ]:
            f.write("%-12s=  %.15E\n" % (k, v))
        f.write("\n")
        f.write("ordering type=hilbert\n")
        f.write("   DOMAIN   ind_min                 ind_max\n")
        for c in range(ncpu):
            f.write(
                "%8d   %.15E   %.15E\n" % (c + 1, float(bkeys[c]), float(bkeys[c + 1]))
            )

    with open(os.path.join(out, "hydro_file_descriptor.txt"), "w") as f:
        f.write("# version:  1\n# ivar, variable_name, variable_type\n")
        f.write("  1, density, d\n  2, pressure, d\n")

    rng = np.random.RandomState(1234)
    # fixed per-oct hydro values
    for lev in levels.values():
        for o in lev:
            o["rho"] = rng.uniform(1.0, 2.0, size=8)
            o["p"] = rng.uniform(3.0, 4.0, size=8)

    for cpu in range(1, ncpu + 1):
        numbl = [
            [sum(1 for o in levels[lev] if o["cpu"] == c and c == cpu) for c in range(1, ncpu + 1)]
            for lev in range(1, levelmax + 1)
        ]
        a = b""
        a += rec("i", ncpu) + rec("i", 3) + rec("3i", 1, 1, 1)
        a += rec("i", levelmax) + rec("i", 10000) + rec("i", 0) + rec("i", 1)
        a += rec("d", 1.0)
        a += rec("3i", 1, 1, 1)  # noutput, iout, ifout
        a += rec("d", 0.0) + rec("d", 0.0) + rec("d", 0.0)  # tout, aout, t
        a += rec("%dd" % levelmax, *([0.0] * levelmax))  # dtold
        a += rec("%dd" % levelmax, *([0.0] * levelmax))  # dtnew
        a += rec("2i", 0, 0)
        a += rec("3d", 0.0, 0.0, 0.0)
        a += rec("7d", *([0.0] * 7))
        a += rec("5d", *([0.0] * 5))
        a += rec("d", 0.0)
        n = ncpu * levelmax
        a += rec("%di" % n, *([0] * n))  # headl
        a += rec("%di" % n, *([0] * n))  # taill
        a += rec("%di" % n, *[v for row in numbl for v in row])  # numbl
        a += rec("%di" % (10 * levelmax), *([0] * (10 * levelmax)))  # numbtot
        a += rec("5i", 0, 0, 0, 0, 0)
        a += rec("128s", b"hilbert".ljust(128))
        a += rec("%dd" % (ncpu + 1), *[float(k) for k in bkeys])
        a += rec("i", 1) + rec("i", 0) + rec("i", 1)  # son, flag1, cpu_map (coarse)

        h = b""
        h += rec("i", ncpu) + rec("i", 2) + rec("i", 3) + rec("i", levelmax)
        h += rec("i", 0) + rec("d", 1.4)

        for lev in range(1, levelmax + 1):
            for dom in range(1, ncpu + 1):
                octs = [o for o in levels[lev] if o["cpu"] == dom] if dom == cpu else []
                nc = len(octs)
                h += rec("i", lev) + rec("i", nc)
                if nc == 0:
                    continue
                fi = "%di" % nc
                fd = "%dd" % nc
                a += rec(fi, *range(1, nc + 1))  # ind_grid
                a += rec(fi, *([0] * nc)) + rec(fi, *([0] * nc))  # next, prev
                for ax in range(3):
                    a += rec(fd, *[o["xg"][ax] for o in octs])
                a += rec(fi, *([0] * nc))  # father
                for _ in range(6):
                    a += rec(fi, *([0] * nc))  # nbor
                for ind in range(8):
                    a += rec(fi, *[o["son"][ind] for o in octs])
                for ind in range(8):
                    a += rec(fi, *([dom] * nc))  # cpu_map
                for ind in range(8):
                    a += rec(fi, *([0] * nc))  # flag1
                for ind in range(8):
                    h += rec(fd, *[o["rho"][ind] for o in octs])
                    h += rec(fd, *[o["p"][ind] for o in octs])

        with open(os.path.join(out, "amr_%s.out%05d" % (tag, cpu)), "wb") as f:
            f.write(a)
        with open(os.path.join(out, "hydro_%s.out%05d" % (tag, cpu)), "wb") as f:
            f.write(h)
    return levels


def table(ds):
    m = ds["mesh"]
    cols = [
        m["position"].x.values,
        m["position"].y.values,
        m["position"].z.values,
        m["level"].values.astype(float),
        m["cpu"].values.astype(float),
        m["dx"].values,
        m["density"].values,
        m["pressure"].values,
    ]
    return np.array(cols).T


def rows_as_set(t):
    return sorted(tuple(r) for r in t)


def compare(path, select, full_filter, label):
    """Load with `select`, and compare with the full load filtered by
    `full_filter(table)` (boolean mask on the table of the full load)."""
    import osyris

    full = table(osyris.RamsesDataset(1, path=path).load())
    expected = rows_as_set(full[full_filter(full)])
    try:
        got_ds = osyris.RamsesDataset(1, path=path).load(select={"mesh": select})
        got = rows_as_set(table(got_ds)) if "level" in got_ds["mesh"] else []
    except Exception as e:  # noqa: BLE001
        print("%s: selective load raised %r" % (label, e))
        return False
    if got != expected:
        missing = [r for r in expected if r not in got]
        extra = [r for r in got if r not in expected]
        print(
            "%s: VIOLATION: selective load returned %d rows, filtering the full "
            "load gives %d rows (%d missing, %d extra)"
            % (label, len(got), len(expected), len(missing), len(extra))
        )
        for r in missing[:5]:
            print("   missing cell: x,y,z=%r level=%d cpu=%d" % (r[:3], r[3], r[4]))
        return False
    print("%s: ok (%d rows)" % (label, len(got)))
    return True


def main():
    tmp = tempfile.mkdtemp(prefix="c04m2_")
    ok = True
    try:
        L = 19
        u = 0.5**L  # size of a finest-level (level 13) cell
        y0 = 2000.5 * u
        z0 = 600.5 * u
        # two refinement chains down to level 13, on either side of the plane
        # x = 0.5, which separates the first and the last Hilbert octant
        targets = [(0.5 - 0.5 * u, y0, z0), (0.5 + 0.5 * u, y0, z0)]
        write_output(tmp, levelmax=L, targets=targets, bounds_oct=[0, 1, 3, 4, 6, 8])
        import osyris

        full = table(osyris.RamsesDataset(1, path=tmp).load())
        assert abs((full[:, 5] ** 3).sum() - 1.0) < 1e-12, "generator: leaves must tile"
        assert full[:, 3].max() == L

        # interval predicates (cm; unit_l = boxlen = 1), each containing at least
        # one finest-level cell centre; the box is 2 x 2.2 x 2.2 finest cells
        xlo, xhi = 0.5 - 0.9 * u, 0.5 + 1.1 * u
        ylo, yhi = 1999.9 * u, 2002.1 * u
        zlo, zhi = 599.9 * u, 602.1 * u

        def between(lo, hi):
            cm = osyris.units("cm")
            return lambda a: (a >= lo * cm) & (a <= hi * cm)

        def inbox(t):
            return (
                (t[:, 0] >= xlo)
                & (t[:, 0] <= xhi)
                & (t[:, 1] >= ylo)
                & (t[:, 1] <= yhi)
                & (t[:, 2] >= zlo)
                & (t[:, 2] <= zhi)
            )

        ok &= compare(
            tmp,
            {
                "position_x": between(xlo, xhi),
                "position_y": between(ylo, yhi),
                "position_z": between(zlo, zhi),
            },
            inbox,
            "small box straddling x = 0.5",
        )
    finally:
        shutil.rmtree(tmp, ignore_errors=True)
    return 0 if ok else 1


if __name__ == "__main__":
    sys.exit(main())
