"""Witness w9 (C18, fix F15): strings spelled with axis letters that are not an axis order.

Before the fix `get_direction("xxyz")` returned a basis with n = u = x (every string whose SET of letters is {x, y, z} was accepted and
cut to its first three letters).  Run with the repository on PYTHONPATH; exits 1 when such a string yields a non-orthogonal basis.
Not part of any registered check (the checks do not run osyris): it documents the failing input of the finding."""
import itertools
import sys

import numpy as np

from osyris.plot.direction import get_direction

bad = []
for k in (2, 3, 4):
    for w in map("".join, itertools.product("xyz", repeat=k)):
        try:
            b = get_direction(w)
        except Exception:
            continue
        if b is None:
            continue
        m = np.array([[float(getattr(v, c).values) for c in "xyz"] for v in (b.n, b.u, b.v)])
        if not np.allclose(m @ m.T, np.eye(3)):
            bad.append(w)
print("non-orthonormal bases for:", bad)
sys.exit(1 if bad else 0)
