"""Feasibility prototype (reads source text only, runs nothing of osyris):
asymptotic-limit (D5) and dependence (D4) evaluation of the pre-selection masks in
plot/map.py::map, per mode (dz given or not).  Expected on the pinned tree:

  thin : plane mask  TRUE in the large-cell limit, depends on cell size
         radial mask FALSE in the large-cell limit      -> C03.R4 violated
  thick: plane mask  UNKNOWN in the limit and does NOT depend on cell size -> C11.R1 violated
         radial mask FALSE                               -> C03.R4 violated
"""
import ast
import sys

SRC = sys.argv[1] if len(sys.argv) > 1 else "/repo/src/osyris/plot/map.py"

B, PINF, NINF, UNK = "BOUNDED", "+INF", "-INF", "UNKNOWN"


class V:
    """abstract value: kind, limit class, sign of a bounded value (+1/-1/None), dependence set"""

    def __init__(self, kind="num", lim=B, sign=None, deps=()):
        self.kind, self.lim, self.sign, self.deps = kind, lim, sign, frozenset(deps)

    def __repr__(self):
        return f"<{self.kind} {self.lim} deps={sorted(self.deps)}>"


def neg(l):
    return {PINF: NINF, NINF: PINF}.get(l, l)


def add(a, b, sub=False):
    lb = neg(b.lim) if sub else b.lim
    if a.lim == B and lb == B:
        lim = B
    elif UNK in (a.lim, lb):
        lim = UNK
    elif a.lim == B:
        lim = lb
    elif lb == B:
        lim = a.lim
    elif a.lim == lb:
        lim = a.lim
    else:
        lim = UNK
    kind = "vec" if "vec" in (a.kind, b.kind) else ("arr" if "arr" in (a.kind, b.kind) else "num")
    return V(kind, lim, None, a.deps | b.deps)


def mul(a, b):
    kind = "vec" if "vec" in (a.kind, b.kind) else ("arr" if "arr" in (a.kind, b.kind) else "num")
    deps = a.deps | b.deps
    if a.lim == B and b.lim == B:
        s = a.sign * b.sign if a.sign and b.sign else None
        return V(kind, B, s, deps)
    inf, oth = (a, b) if a.lim in (PINF, NINF) else (b, a)
    if inf.lim in (PINF, NINF) and oth.lim == B and oth.sign:
        return V(kind, inf.lim if oth.sign > 0 else neg(inf.lim), None, deps)
    return V(kind, UNK, None, deps)


def absval(a, kind=None):
    lim = PINF if a.lim in (PINF, NINF) else a.lim
    return V(kind or a.kind, lim, 1 if lim == B else None, a.deps)


def compare_le(a, b):
    if a.lim == B and b.lim == PINF or a.lim == NINF and b.lim in (B, PINF):
        return "TRUE"
    if a.lim == PINF and b.lim in (B, NINF) or a.lim == B and b.lim == NINF:
        return "FALSE"
    return "UNKNOWN"


class Interp:
    def __init__(self, thick, dx_given=True):
        self.thick, self.dx_given = thick, dx_given
        self.env = {}
        self.masks = {}  # name -> (verdict, deps, lineno, text)
        self.index_uses = []

    # ---- sources
    def source(self, text):
        table = {
            "layers[0]['position']": V("vec", B, None, {"position"}),
            "layers[0]['dx']": V("arr", PINF, None, {"cell_size"}),
        }
        return table.get(text)

    def ev(self, n):
        t = ast.unparse(n)
        s = self.source(t)
        if s:
            return s
        if isinstance(n, ast.Constant):
            if isinstance(n.value, (int, float)) and not isinstance(n.value, bool):
                return V("num", B, (n.value > 0) - (n.value < 0) or None)
            return V("other")
        if isinstance(n, ast.Name):
            return self.env.get(n.id, V("other", UNK, None, {n.id}))
        if isinstance(n, ast.UnaryOp) and isinstance(n.op, ast.USub):
            a = self.ev(n.operand)
            return V(a.kind, neg(a.lim), -a.sign if a.sign else None, a.deps)
        if isinstance(n, ast.BinOp):
            a, b = self.ev(n.left), self.ev(n.right)
            if isinstance(n.op, ast.Add):
                return add(a, b)
            if isinstance(n.op, ast.Sub):
                return add(a, b, sub=True)
            if isinstance(n.op, (ast.Mult, ast.Div)):
                return mul(a, b)
            return V("num", UNK, None, a.deps | b.deps)
        if isinstance(n, ast.IfExp):
            test = ast.unparse(n.test)
            if test == "thick":
                return self.ev(n.body if self.thick else n.orelse)
            if test == "dy is None":
                return self.ev(n.body)
            if test == "dz is None":
                return self.ev(n.orelse if self.thick else n.body)
            a, b = self.ev(n.body), self.ev(n.orelse)
            return V(a.kind, a.lim if a.lim == b.lim else UNK, None, a.deps | b.deps)
        if isinstance(n, ast.Compare) and len(n.ops) == 1 and isinstance(n.ops[0], ast.LtE):
            a, b = self.ev(n.left), self.ev(n.comparators[0])
            v = V("mask", B, None, a.deps | b.deps)
            v.verdict = compare_le(a, b)
            v.text = t
            v.lineno = n.lineno
            return v
        if isinstance(n, ast.Attribute):
            base = self.ev(n.value)
            if n.attr in ("values", "magnitude", "x", "y", "z"):
                out = V("arr" if base.kind in ("vec", "arr", "mask") else base.kind, base.lim, base.sign, base.deps)
                for k in ("verdict", "text", "lineno"):
                    if hasattr(base, k):
                        setattr(out, k, getattr(base, k))
                if base.kind == "mask":
                    out.kind = "mask"
                return out
            if n.attr == "norm":
                return absval(base, "arr")
            if n.attr in ("n", "u", "v") and base.kind == "basis":
                return V("vec", B, None, base.deps)
            if n.attr in ("units", "unit"):
                return V("other")
            if n.attr == "nvec":
                return V("num", B, 1, base.deps)
            return V("other", UNK, None, base.deps)
        if isinstance(n, ast.Subscript):
            base = self.ev(n.value)
            idx = self.ev(n.slice)
            self.index_uses.append((ast.unparse(n.value), ast.unparse(n.slice), n.lineno))
            return V(base.kind, base.lim, base.sign, base.deps | idx.deps)
        if isinstance(n, ast.Call):
            f = ast.unparse(n.func)
            args = [self.ev(a) for a in n.args] + [self.ev(k.value) for k in n.keywords]
            deps = frozenset().union(*[a.deps for a in args]) if args else frozenset()
            if f == "np.sqrt":
                return V("num", args[0].lim, 1 if args[0].lim == B else None, deps)
            if f == "np.abs":
                return absval(args[0])
            if f in ("max", "np.maximum"):
                lim = B if all(a.lim == B for a in args) else UNK
                return V("num", lim, 1 if all(a.sign == 1 for a in args) else None, deps)
            if f in ("np.arange", "len"):
                return V("arr", B, None, deps)
            if f == "get_direction" or f == "VectorBasis":
                return V("basis", B, None, deps - {"cell_size"})
            if f == "Vector":
                return V("vec", B, None, deps)
            if f.endswith(".dot"):
                recv = self.ev(n.func.value)
                lim = B if recv.lim == B and all(a.lim == B for a in args) else UNK
                return V("arr", lim, None, recv.deps | deps)
            if f.endswith(".to"):
                recv = self.ev(n.func.value)
                return V(recv.kind, recv.lim, 1, recv.deps)
            return V("other", UNK, None, deps)
        return V("other", UNK)

    def run(self, stmts):
        for st in stmts:
            if isinstance(st, ast.Assign) and len(st.targets) == 1 and isinstance(st.targets[0], ast.Name):
                v = self.ev(st.value)
                name = st.targets[0].id
                self.env[name] = v
                if getattr(v, "verdict", None):
                    self.masks[name] = v
            elif isinstance(st, ast.If):
                test = ast.unparse(st.test)
                if test == "dx is not None":
                    self.run(st.body if self.dx_given else st.orelse)
                elif test == "xmin is None":
                    self.run(st.orelse if self.dx_given else st.body)
                elif test == "origin is None":
                    pass
                elif test == "thick":
                    self.run(st.body if self.thick else st.orelse)
                elif test == "ndim < 3":
                    self.run(st.orelse)
                elif test.startswith("len(indices_close_to_plane)"):
                    pass
                else:
                    return  # past the pre-selection part
            elif isinstance(st, (ast.Expr, ast.For)):
                continue


tree = ast.parse(open(SRC).read())
fn = [n for n in tree.body if isinstance(n, ast.FunctionDef) and n.name == "map"][0]
# start after the layer-parsing loop: first statement assigning `position`
start = next(i for i, s in enumerate(fn.body) if isinstance(s, ast.Assign) and ast.unparse(s.targets[0]) == "position")
for thick in (False, True):
    it = Interp(thick)
    it.env["dx"] = V("num", B, 1, {"dx"})
    it.env["dy"] = V("num", B, 1, {"dy"})
    it.env["dz"] = V("num", B, 1, {"dz"})
    it.env["origin"] = V("vec", B, None, {"origin"})
    it.env["direction"] = V("other", B, None, {"direction"})
    it.env["thick"] = V("other")
    it.run(fn.body[start:])
    print(f"--- mode thick={thick}")
    used = {u[1] for u in it.index_uses}
    for name, m in it.masks.items():
        role = "filters the cell index set" if name in used else "(not used as an index)"
        dep_ok = "cell_size" in m.deps
        print(f"  map.py:{m.lineno} mask {name!r}: large-cell limit = {m.verdict:7s} depends_on_cell_size={dep_ok}  {role}")
        if m.verdict == "FALSE":
            print("     -> C03.R4 VIOLATED: predicate is false for every sufficiently large cell (which contains the window)")
        if not dep_ok:
            print("     -> C11.R1/C03.R5 VIOLATED: threshold independent of the cell size")
