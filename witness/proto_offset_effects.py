"""Throwaway prototype: polynomial effect interpretation of AmrReader.read_header vs a RAMSES layout spec."""
import ast, sys, itertools
from fractions import Fraction

class Poly:
    def __init__(self, terms=None):
        self.t = {k: v for k, v in (terms or {}).items() if v != 0}
    @staticmethod
    def const(c): return Poly({(): Fraction(c)})
    @staticmethod
    def sym(s): return Poly({((s, 1),): Fraction(1)})
    def __add__(self, o):
        o = o if isinstance(o, Poly) else Poly.const(o)
        d = dict(self.t)
        for k, v in o.t.items(): d[k] = d.get(k, 0) + v
        return Poly(d)
    __radd__ = __add__
    def __neg__(self): return Poly({k: -v for k, v in self.t.items()})
    def __sub__(self, o): return self + (-(o if isinstance(o, Poly) else Poly.const(o)))
    def __mul__(self, o):
        o = o if isinstance(o, Poly) else Poly.const(o)
        d = {}
        for k1, v1 in self.t.items():
            for k2, v2 in o.t.items():
                m = dict(k1)
                for s, e in k2: m[s] = m.get(s, 0) + e
                k = tuple(sorted((s, e) for s, e in m.items() if e))
                d[k] = d.get(k, 0) + v1 * v2
        return Poly(d)
    __rmul__ = __mul__
    def __eq__(self, o): return (self - o).t == {}
    def subs(self, s, val):
        out = Poly()
        for k, v in self.t.items():
            term = Poly.const(v)
            for sym, e in k:
                base = (val if isinstance(val, Poly) else Poly.const(val)) if sym == s else Poly.sym(sym)
                for _ in range(e): term = term * base
            out = out + term
        return out
    def __repr__(self):
        if not self.t: return "0"
        parts = []
        for k, v in sorted(self.t.items()):
            mon = "*".join(s if e == 1 else f"{s}^{e}" for s, e in k)
            parts.append(f"{v}" + ("*" + mon if mon else ""))
        return " + ".join(parts)

SIZE = {"b":1,"h":2,"i":4,"q":8,"f":4,"d":8,"e":8,"n":8,"l":8,"s":1}

src = open("/repo/src/osyris/io/amr.py").read()
tree = ast.parse(src)
cls = [n for n in tree.body if isinstance(n, ast.ClassDef) and n.name == "AmrReader"][0]
fn = [n for n in cls.body if isinstance(n, ast.FunctionDef) and n.name == "read_header"][0]

def ev(node, env):
    if isinstance(node, ast.Constant): return Poly.const(node.value)
    if isinstance(node, ast.Name): return env[node.id]
    if isinstance(node, ast.BinOp):
        a, b = ev(node.left, env), ev(node.right, env)
        if isinstance(node.op, ast.Add): return a + b
        if isinstance(node.op, ast.Sub): return a - b
        if isinstance(node.op, ast.Mult): return a * b
        raise NotImplementedError(ast.dump(node.op))
    if isinstance(node, ast.Subscript):
        key = ast.unparse(node)
        if key in env: return env[key]
        raise KeyError(key)
    raise NotImplementedError(ast.dump(node))

def fmt_of(node, env):
    # returns (count Poly, typechar)
    if isinstance(node, ast.Constant):
        s = node.value
        return (Poly.const(int(s[:-1]) if len(s) > 1 else 1), s[-1])
    if isinstance(node, ast.Call) and isinstance(node.func, ast.Attribute) and node.func.attr == "format":
        tmpl = node.func.value.value
        assert tmpl.startswith("{}") and len(tmpl) == 3, tmpl
        return (ev(node.args[0], env), tmpl[-1])
    raise NotImplementedError(ast.dump(node))

def position(off, skip_head=True):
    p = Poly.const(4 if skip_head else 0)
    for k, v in off.items(): p = p + v * SIZE[k]
    return p

def run(stmts, off, env, events, assume):
    for st in stmts:
        if isinstance(st, ast.AugAssign) and isinstance(st.target, ast.Subscript) and ast.unparse(st.target.value) == "self.offsets":
            k = st.target.slice.value
            off[k] = off[k] + ev(st.value, env)
        elif isinstance(st, ast.Assign):
            calls = [c for c in ast.walk(st.value) if isinstance(c, ast.Call) and ast.unparse(c.func) == "utils.read_binary_data"]
            if calls:
                c = calls[0]
                kw = {k.arg: k.value for k in c.keywords}
                cnt, ty = fmt_of(kw["fmt"], env)
                sh = not ("skip_head" in kw and kw["skip_head"].value is False)
                inc = not ("increment" in kw and kw["increment"].value is False)
                tgt = st.targets[0]
                names = [ast.unparse(e) for e in tgt.elts] if isinstance(tgt, (ast.List, ast.Tuple)) else [ast.unparse(tgt)]
                events.append(dict(line=st.lineno, pos=position(off, sh), count=cnt, type=ty, skip_head=sh, names=names))
                for nm in names:
                    env[nm] = Poly.sym(nm.replace("self.meta['", "").replace("']", ""))
                if inc: off[ty] = off[ty] + cnt
                off["n"] = off["n"] + 1
            else:
                t = ast.unparse(st.targets[0])
                try: env[t] = ev(st.value, env)
                except Exception as e: pass
        elif isinstance(st, ast.If):
            cond = ast.unparse(st.test)
            assert cond == "self.meta['nboundary'] > 0", cond
            if assume["nboundary>0"]:
                run(st.body, off, env, events, assume)
            else:
                run(st.orelse, off, env, events, assume)
        elif isinstance(st, ast.Expr):
            pass
        else:
            raise NotImplementedError(ast.dump(st)[:200])

# ---------------- spec: RAMSES amr_XXXXX.outYYYYY header (output_amr.f90: backup_amr) -----------------
S = Poly.sym
def spec(nb_pos):
    ncpu, lm, nb, nout, nco, ks = S("ncpu"), S("levelmax"), S("nboundary"), S("noutput"), S("ncoarse"), S("key_size")
    if not nb_pos: nb = Poly.const(0)
    R = [("ncpu","i",1),("ndim","i",1),("nx,ny,nz","i",3),("nlevelmax","i",1),("ngridmax","i",1),("nboundary","i",1),
         ("ngrid_current","i",1),("boxlen","d",1),("noutput,iout,ifout","i",3),("tout","d",nout),("aout","d",nout),("t","d",1),
         ("dtold","d",lm),("dtnew","d",lm),("nstep,nstep_coarse","i",2),("einit,mass_tot_0,rho_tot","d",3),
         ("omega_m..boxlen_ini","d",7),("aexp..epot_tot_old","d",5),("mass_sph","d",1),
         ("headl","i",ncpu*lm),("taill","i",ncpu*lm),("numbl","i",ncpu*lm),("numbtot","i",10*lm)]
    if nb_pos:
        R += [("headb","i",nb*lm),("tailb","i",nb*lm),("numbb","i",nb*lm)]
    R += [("headf..used_mem_tot","i",5),("ordering","s",128),("bound_key","s",ks),("son","i",nco),("flag1","i",nco),("cpu_map","i",nco)]
    return R

for nb_pos in (False, True):
    off = {k: Poly() for k in "bidnsql"}
    env = {"info['ncpu']": S("ncpu"), "info['levelmax']": S("levelmax")}
    events = []
    run(fn.body, off, env, events, {"nboundary>0": nb_pos})
    # fix up: ncoarse symbol
    end = position(off, skip_head=False)
    # spec positions
    R = spec(nb_pos)
    starts = {}
    p = Poly()
    for name, ty, cnt in R:
        starts[name] = p
        c = cnt if isinstance(cnt, Poly) else Poly.const(cnt)
        p = p + c * SIZE[ty] + 8
    total = p
    print("=== nboundary>0:", nb_pos)
    def norm(poly):
        # code uses nx*ny*nz for ncoarse, and symbol names from env
        q = poly
        return q
    expect = {"nx":"nx,ny,nz", 'nboundary':"nboundary", "noutput":"noutput,iout,ifout", "info['dtold']":"dtold", "info['dtnew']":"dtnew",
              "key_size":"bound_key"}
    for e in events:
        nm = e["names"][0]
        rec = None
        for k, v in expect.items():
            if nm.startswith(k) or k in nm: rec = v
        if nb_pos and "nboundary" in nm and "ngridlevel" in nm: rec = "numbb"
        if rec is None and "ngridlevel" in nm: rec = "numbb" if "info['ncpu']:" in nm else "numbl"
        want = starts[rec] + (4 if e["skip_head"] else 0)
        if not nb_pos: got = e["pos"].subs("nboundary", 0)
        else: got = e["pos"]
        print(f"  line {e['line']:3d} read {e['count']}{e['type']:1s} -> {nm[:40]:40s} rec={rec:20s} pos_ok={got == want}")
        if not got == want: print("      got ", got, "\n      want", want)
    # end position: code's ncoarse = nx*ny*nz
    endc = end.subs("nx", Poly.sym("NX"))
    tot = total.subs("ncoarse", Poly.sym("nx")*Poly.sym("ny")*Poly.sym("nz"))
    if not nb_pos: end = end.subs("nboundary", 0)
    print("  header end ok:", end == tot)
    if not end == tot: print("   got", end, "\n   want", tot)
