import numpy as np, osyris
from osyris import Array, Vector, Datagroup, units
import matplotlib; matplotlib.use("Agg")
x = Array(np.linspace(1,10,100), unit="m"); y = Array(np.linspace(1,10,100), unit="s")
try:
    p = osyris.histogram2d(x, y, xmin=2*units("m"), plot=False, resolution=4)
    print("ok", p.x)
except Exception as e: print("hist2d quantity limit:", type(e).__name__, e)
p = osyris.histogram2d(x, y, plot=False, resolution=4)
print(p.layers[0]["data"])
print(p.layers[0]["data"].sum())
# Vector in-place semantic & sharing
v = Vector(np.array([1.,2.]), np.array([3.,4.]), unit="m"); v0=v
g1 = Datagroup({"v": v}); g2 = Datagroup({"v": v})
v *= 2*units("s")
print("same obj:", v is v0, "| g1 sees:", g1["v"].x.values, g1["v"].unit, "| v:", v.x.values, v.unit)
