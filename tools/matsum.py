#!/usr/bin/env python3
"""summarise MATRIX.json files: tools/matsum.py <root> [benign]"""
import json, sys, os
root = sys.argv[1]; benign = len(sys.argv) > 2
m = json.load(open(os.path.join(root, "MATRIX.json")))
bad = 0
for k, r in sorted(m.items()):
    if "error" in r:
        print(k, "ERROR", r["error"][:80]); bad += 1; continue
    fired = [p + ":" + "+".join(x.split(".")[1] for x in r[p]["rules"]) for p in sorted(r) if r[p]["exit"] == 1]
    ae = [p for p in sorted(r) if r[p]["exit"] == 2]
    if benign:
        if fired or ae:
            bad += 1; print("%-10s NOISY fired=%s AE=%s" % (k, ",".join(fired), ",".join(ae)))
    else:
        own = k[:3]
        if r[own]["exit"] != 1:
            bad += 1; print("%-10s MISSED own-exit=%d fired=%s AE=%s" % (k, r[own]["exit"], ",".join(fired), ",".join(ae)))
print(root, len(m), "entries;", bad, "problems")
