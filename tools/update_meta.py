#!/usr/bin/env python3
"""After tools/runmat.sh: copy /tmp/MATRIX_seeded.json and /tmp/MATRIX_benign.json into seeded/ and benign/, and write what the final
machinery reports into every seeded/<id>/meta.json (detected_by_checks, reporting_rules, analysis_errors_in_other_checks) and every
benign/<id>/meta.json (final_evaluation)."""
import json, os, shutil, sys

V = os.path.dirname(os.path.dirname(os.path.abspath(__file__)))
P = ["C%02d" % i for i in range(1, 21)]
ms = json.load(open("/tmp/MATRIX_seeded.json"))
mb = json.load(open("/tmp/MATRIX_benign.json"))
shutil.copy("/tmp/MATRIX_seeded.json", os.path.join(V, "seeded", "MATRIX.json"))
shutil.copy("/tmp/MATRIX_benign.json", os.path.join(V, "benign", "MATRIX.json"))
own = ae = silent = 0
for name, res in sorted(ms.items()):
    mp = os.path.join(V, "seeded", name, "meta.json")
    if not os.path.exists(mp) or "error" in res:
        print("skip", name, res.get("error", ""))
        continue
    d = json.load(open(mp))
    fired = [p for p in P if res[p]["exit"] == 1]
    aes = [p for p in P if res[p]["exit"] == 2]
    d["detected_by_checks"] = fired
    d["reporting_rules"] = {p: res[p]["rules"] for p in fired}
    d["analysis_errors_in_other_checks"] = aes
    d["checks_run"] = "tools/seedmatrix.py: every quick check (./vcheck Cxx) against a scratch copy with the patch applied (final machinery)"
    bp = d.get("breaks_property", name.split("-")[0])
    st = res[bp]["exit"]
    d["reported_by_own_property"] = st == 1
    own += st == 1
    ae += st == 2
    silent += st == 0
    json.dump(d, open(mp, "w"), indent=1)
nb = 0
for name, res in sorted(mb.items()):
    if "error" in res:
        continue
    fired = [p for p in P if res[p]["exit"] == 1]
    aes = [p for p in P if res[p]["exit"] == 2]
    nb += not fired and not aes
    mp = os.path.join(V, "benign", name, "meta.json")
    if not os.path.exists(mp):
        continue
    d = json.load(open(mp))
    d["final_evaluation"] = {"fired": fired, "analysis_error": aes, "silent": not fired and not aes}
    json.dump(d, open(mp, "w"), indent=1)
print("seeded: %d entries, %d reported by the own property, %d analysis errors, %d silent" % (len(ms), own, ae, silent))
print("benign: %d entries, %d silent" % (len(mb), nb))
