#!/bin/sh
# usage: tools/seedtest.sh <patch.diff> <prop> [<prop> ...]  — apply a seeded change to /repo, run the checks, undo.
P="$1"; shift
cd /repo || exit 3
git apply --check "$P" || { echo "patch does not apply"; exit 3; }
git apply "$P"
for id in "$@"; do
  ( cd /verif && VERIF_NO_EVIDENCE=1 ./vcheck "$id" --tier "${TIER:-quick}" ); echo "  -> exit=$? ($id)"
done
git -C /repo checkout -- . 
