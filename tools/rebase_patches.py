#!/usr/bin/env python3
"""Rebase stored patch.diff files after a `fix:` commit in /repo.

usage: tools/rebase_patches.py <old_commit> <dir>...     (dirs hold */patch.diff)

For every patch that no longer applies on /repo's HEAD: scratch worktree at <old_commit>, apply, commit, cherry-pick the commits
old_commit..HEAD on top; when that merges cleanly the patch is rewritten as `git diff HEAD <result>`.  Conflicts are listed for a manual rebase.
"""
import glob
import os
import subprocess
import sys

REPO = "/repo"


def sh(*a, cwd=None, ok=False):
    r = subprocess.run(a, cwd=cwd, capture_output=True, text=True)
    if r.returncode and not ok:
        raise RuntimeError("%s: %s" % (a, r.stderr))
    return r


def main():
    old = sys.argv[1]
    head = sh("git", "-C", REPO, "rev-parse", "HEAD").stdout.strip()
    wt = "/tmp/rebase_wt_%d" % os.getpid()
    sh("git", "-C", REPO, "worktree", "add", "-q", "--detach", wt, head)
    todo = []
    try:
        for root in sys.argv[2:]:
            for p in sorted(glob.glob(os.path.join(root, "*", "patch.diff"))):
                if sh("git", "-C", wt, "apply", "--check", p, ok=True).returncode:
                    todo.append(p)
        print("%d patches do not apply on %s" % (len(todo), head[:7]))
        for p in todo:
            sh("git", "-C", wt, "checkout", "-q", "--detach", old)
            sh("git", "-C", wt, "reset", "-q", "--hard")
            sh("git", "-C", wt, "clean", "-qfd")
            if sh("git", "-C", wt, "apply", p, ok=True).returncode:
                print("CONFLICT (does not apply on the old commit either):", p)
                continue
            sh("git", "-C", wt, "add", "-A")
            sh("git", "-C", wt, "-c", "user.name=x", "-c", "user.email=x@x", "commit", "-q", "-m", "tmp")
            r = sh("git", "-C", wt, "-c", "user.name=x", "-c", "user.email=x@x", "cherry-pick", "%s..%s" % (old, head), ok=True)
            if r.returncode:
                sh("git", "-C", wt, "cherry-pick", "--abort", ok=True)
                print("CONFLICT:", p)
                continue
            d = sh("git", "-C", wt, "diff", head, "HEAD").stdout
            open(p, "w").write(d)
            print("rebased:", p)
    finally:
        sh("git", "-C", REPO, "worktree", "remove", "--force", wt, ok=True)
        sh("git", "-C", REPO, "worktree", "prune", ok=True)


main()
