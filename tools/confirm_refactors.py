#!/usr/bin/env python3
"""Confirm behaviour-preserving refactors written by sub-agents: for each <root>/<id>/ (patch.diff, equiv.py, notes.md) -- in a scratch
worktree of /repo HEAD the patch applies, the test suite passes with it, and equiv.py (the sub-agent's own old-vs-new comparison) exits 0
with and without it.  Writes <root>/CONFIRM.json.  Usage: tools/confirm_refactors.py <root>"""
import json, os, subprocess, sys, tempfile, shutil
from concurrent.futures import ThreadPoolExecutor

root = os.path.abspath(sys.argv[1])


def sh(cmd, **kw):
    return subprocess.run(cmd, shell=True, capture_output=True, text=True, **kw)


def one(args):
    idx, name = args
    d = os.path.join(root, name)
    wt = "/tmp/wt_refac_%d" % idx
    sh("git -C /repo worktree remove --force %s" % wt)
    sh("git -C /repo worktree add -q --detach %s HEAD" % wt)
    out = {"id": name}
    try:
        h = tempfile.mkdtemp()
        env = dict(os.environ, HOME=h, PYTHONPATH=wt + "/src")
        if os.path.exists(d + "/equiv.py"):
            out["equiv_exit_without_change"] = sh("cd /tmp && timeout 900 /venv/bin/python %s/equiv.py" % d, env=env).returncode
        a = sh("git -C %s apply %s/patch.diff" % (wt, d))
        if a.returncode:
            out["error"] = "patch does not apply: " + a.stderr[:200]
            return out
        out["test_suite_with_change"] = sh("cd %s && timeout 1200 /venv/bin/python -m pytest -q -p no:cacheprovider 2>&1 | tail -1" % wt, env=env).stdout.strip()
        if os.path.exists(d + "/equiv.py"):
            out["equiv_exit_with_change"] = sh("cd /tmp && timeout 900 /venv/bin/python %s/equiv.py" % d, env=env).returncode
        shutil.rmtree(h, ignore_errors=True)
        return out
    finally:
        sh("git -C /repo worktree remove --force %s" % wt)


names = sorted(n for n in os.listdir(root) if os.path.isfile(os.path.join(root, n, "patch.diff")))
with ThreadPoolExecutor(8) as ex:
    res = list(ex.map(one, enumerate(names)))
json.dump(res, open(os.path.join(root, "CONFIRM.json"), "w"), indent=1)
bad = 0
for r in res:
    ok = "passed" in r.get("test_suite_with_change", "") and "failed" not in r.get("test_suite_with_change", "") and r.get("equiv_exit_with_change", 0) == 0 and r.get("equiv_exit_without_change", 0) == 0
    bad += not ok
    print("%-10s %s tests=%r equiv=%s/%s %s" % (r["id"], "CONFIRMED" if ok else "NOT-CONFIRMED", r.get("test_suite_with_change"), r.get("equiv_exit_without_change"), r.get("equiv_exit_with_change"), r.get("error", "")))
print(len(res), "refactors;", bad, "not confirmed")
