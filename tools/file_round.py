#!/usr/bin/env python3
"""File a validation round under seeded/ and benign/.
usage: tools/file_round.py <round> <seed root> <refactor root> <decisions.json>
  <seed root>/Cxx/mN/{patch.diff,demo.py,notes.md}, <refactor root>/Rxx/rN/{patch.diff,equiv.py,notes.md}
  decisions.json: {"refile": {"C10/m1": "C02", ...}, "reject": {"C08/m1": "reason"}, "notes": {"C16/m2": "text"},
                   "confirm_mutants": path to CONFIRM.json (flat ids Cxx-r<round>mN), "confirm_refactors": path (flat ids Rxx-rN),
                   "first_eval": path to ROUND<round>_FIRST_EVAL.json, "snapshot": commit, "avoid": "text"}"""
import json, os, re, shutil, sys

V = os.path.dirname(os.path.dirname(os.path.abspath(__file__)))
rnd, sroot, rroot, dec = int(sys.argv[1]), sys.argv[2], sys.argv[3], json.load(open(sys.argv[4]))
first = json.load(open(dec["first_eval"]))
cm = {r["id"]: r for r in json.load(open(dec["confirm_mutants"]))}
cr = {r["id"]: r for r in json.load(open(dec["confirm_refactors"]))}


def next_index(prefix, letter, where):
    used = [int(m.group(1)) for d in os.listdir(where) for m in [re.match(r"%s-%s(\d+)$" % (prefix, letter), d)] if m]
    return max(used + [0]) + 1


filed = {}
for p in sorted(os.listdir(sroot)):
    pd = os.path.join(sroot, p)
    if not re.match(r"C\d\d$", p):
        continue
    for m in sorted(os.listdir(pd)):
        src = os.path.join(pd, m)
        if not os.path.isfile(os.path.join(src, "patch.diff")):
            continue
        key = "%s/%s" % (p, m)
        conf = cm.get("%s-r%d%s" % (p, rnd, m), {})
        fe = first["mutants"].get(key, {})
        if key in dec.get("reject", {}):
            dst = os.path.join(V, "seeded", "_rejected", "%s-m%d" % (p, next_index(p, "m", os.path.join(V, "seeded", "_rejected")) + 100))
            # rejected ids continue the numbering of the property's kept changes to stay unique
            dst = os.path.join(V, "seeded", "_rejected", "%s-r%d%s" % (p, rnd, m))
            os.makedirs(dst, exist_ok=True)
            for f in ("patch.diff", "demo.py", "notes.md"):
                shutil.copy(os.path.join(src, f), dst)
            open(os.path.join(dst, "REJECTED.md"), "w").write("# Not kept as a property-breaking change (round %d, %s)\n\n%s\n" % (rnd, key, dec["reject"][key]))
            filed[key] = "_rejected/" + os.path.basename(dst)
            continue
        target = dec.get("refile", {}).get(key, p)
        idx = next_index(target, "m", os.path.join(V, "seeded"))
        name = "%s-m%d" % (target, idx)
        dst = os.path.join(V, "seeded", name)
        os.makedirs(dst)
        for f in ("patch.diff", "demo.py", "notes.md"):
            shutil.copy(os.path.join(src, f), dst)
        notes = " ".join(open(os.path.join(src, "notes.md")).read().split())[:900]
        files = sorted(set(re.findall(r"^diff --git a/(\S+)", open(os.path.join(src, "patch.diff")).read(), re.M)))
        meta = {"id": name, "round": rnd, "breaks_property": target, "written_for_property": p,
                "origin": "written by an independent sub-agent that was given only the text of the property, one-line descriptions of ALL earlier changes for that property (%s) to avoid, and a scratch worktree of /repo (nothing from /verif)" % dec.get("avoid", "earlier rounds"),
                "files_changed": files, "needs_to_manifest": "see notes.md (written by the sub-agent): " + notes,
                "confirmed_by_me": {"how": "tools/confirm_round.py: scratch worktree of /repo HEAD; PYTHONPATH=<worktree>/src, fresh HOME; notes read and judged against the property text",
                                    "test_suite_with_change": conf.get("test_suite_with_change"), "demo_exit_without_change": conf.get("demo_exit_without_change"),
                                    "demo_exit_with_change": conf.get("demo_exit_with_change")},
                "first_evaluation": {"detected_by_own_property": fe.get("own_detected"), "own_exit": fe.get("own_exit"), "fired": fe.get("fired"), "analysis_error": fe.get("analysis_error"),
                                     "note": "checks as of /verif commit %s (snapshot taken before the round was launched)" % dec.get("snapshot", "?")}}
        if key in dec.get("notes", {}):
            meta["judgement"] = dec["notes"][key]
        json.dump(meta, open(os.path.join(dst, "meta.json"), "w"), indent=1)
        filed[key] = name
for p in sorted(os.listdir(rroot)):
    pd = os.path.join(rroot, p)
    if not re.match(r"R\d\d$", p):
        continue
    for m in sorted(os.listdir(pd)):
        src = os.path.join(pd, m)
        if not os.path.isfile(os.path.join(src, "patch.diff")):
            continue
        key = "%s/%s" % (p, m)
        idx = next_index(p, "r", os.path.join(V, "benign"))
        name = "%s-r%d" % (p, idx)
        dst = os.path.join(V, "benign", name)
        os.makedirs(dst)
        for f in ("patch.diff", "equiv.py", "notes.md"):
            if os.path.exists(os.path.join(src, f)):
                shutil.copy(os.path.join(src, f), dst)
        conf = cr.get("%s-%s" % (p, m), {})
        fe = first["refactors"].get(key, {})
        meta = {"id": name, "round": rnd, "kind": "behaviour-preserving refactor (must NOT be reported)", "origin": "written by an independent sub-agent given only a scratch worktree of /repo",
                "confirmed_by_me": {"how": "tools/confirm_refactors.py", "test_suite_with_change": conf.get("test_suite_with_change"), "equiv_exit_without_change": conf.get("equiv_exit_without_change"),
                                    "equiv_exit_with_change": conf.get("equiv_exit_with_change")},
                "first_evaluation": {"fired": fe.get("fired"), "analysis_error": fe.get("analysis_error"), "did_not_terminate": [], "silent": fe.get("silent")}}
        if key in dec.get("notes", {}):
            meta["judgement"] = dec["notes"][key]
        json.dump(meta, open(os.path.join(dst, "meta.json"), "w"), indent=1)
        filed[key] = name
json.dump(filed, open(os.path.join(V, "seeded", "ROUND%d_FILED.json" % rnd), "w"), indent=1, sort_keys=True)
for k, v in sorted(filed.items()):
    print(k, "->", v)
