#!/usr/bin/env python3
"""Run one selftest mutant/benign overlay verbosely: tools/onemut.py <name> [props...]"""
import os, sys
sys.path.insert(0, os.path.dirname(os.path.dirname(os.path.abspath(__file__))))
from sa import selftest
from sa.source import SourceTree
from sa.cli import run_property, repo_path
name = sys.argv[1]
ent = [m for m in selftest.M if m[0] == name] or [(b[0], b[1], b[2], b[3], []) for b in selftest.B if b[0] == name]
mid, rel, old, new, props = ent[0]
props = sys.argv[2:] or props or ["C%02d" % i for i in range(1, 21)]
src = SourceTree(repo_path()).modules[rel].src
for o, n in (old if isinstance(old, list) else [(old, new)]):
    assert o in src, "stale"
    src = src.replace(o, n, 1)
for p in props:
    r = run_property(p, "quick", 0, tree=SourceTree(repo_path(), overlay={rel: src}), write=False, quiet=False)
    print(p, "exit", r.exit_code)
