#!/bin/sh
# Confirm every seeded change under $1 (default /tmp/seed): in a scratch worktree, the suite passes with the change,
# the demo fails with it and passes without it.  Writes one line per mutant to stdout.
SRC="${1:-/tmp/seed}"
WT=/tmp/wt_confirm
git -C /repo worktree remove --force $WT 2>/dev/null
git -C /repo worktree add -q --detach $WT HEAD || exit 3
for d in "$SRC"/C*/m*; do
  id=$(basename $(dirname $d)); m=$(basename $d)
  [ -f "$d/patch.diff" ] || { echo "$id/$m: no patch"; continue; }
  H=$(mktemp -d)
  base=$(cd /tmp && HOME=$H PYTHONPATH=$WT/src timeout 600 /venv/bin/python $d/demo.py >/dev/null 2>&1; echo $?)
  if ! git -C $WT apply --check "$d/patch.diff" 2>/dev/null; then echo "$id/$m: PATCH-DOES-NOT-APPLY"; rm -rf $H; continue; fi
  git -C $WT apply "$d/patch.diff"
  tests=$(cd $WT && HOME=$H PYTHONPATH=$WT/src timeout 900 /venv/bin/python -m pytest -q -p no:cacheprovider 2>&1 | tail -1)
  H2=$(mktemp -d)
  mut=$(cd /tmp && HOME=$H2 PYTHONPATH=$WT/src timeout 600 /venv/bin/python $d/demo.py >/dev/null 2>&1; echo $?)
  git -C $WT checkout -q -- .
  echo "$id/$m: demo_clean=$base demo_mutant=$mut tests='$tests'"
  rm -rf $H $H2
done
git -C /repo worktree remove --force $WT
