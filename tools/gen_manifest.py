#!/usr/bin/env python3
"""Regenerate MANIFEST.json from the rule modules (EXPLANATION / NOT_DECIDED / TRUSTED) — run after adding a property."""
import importlib
import json
import os
import sys

sys.path.insert(0, os.path.dirname(os.path.dirname(os.path.abspath(__file__))))
VERIF = os.path.dirname(os.path.dirname(os.path.abspath(__file__)))
props = [json.loads(l) for l in open(os.path.join(VERIF, "properties.jsonl"))]
NA = {}  # property id -> reason (genuinely not applicable)
TECH = {}
THOROUGH = {
    "C01": "every selection of the six AMR variables (64) and of the variables of each mesh reader (3 x 8) in the body fold; Loader.load over 324 scenarios",
    "C02": "every arithmetic and in-place operator over all ordered pairs of 15 units, on physical values; the complete product probe x mutator x probe of the Array history fold (about 4 600 operation sequences)",
    "C03": "map() over 60 scenarios (thin/thick x ordered pairs of layer operations x resolution forms)",
    "C04": "Loader.load over 324 scenarios (ndim x ncpu x levelmax x nboundary x level predicate x cpu_list)",
    "C06": "every sequence of up to 3 dictionary operations on a fresh Datagroup against a reference dictionary with the insertion gate (1884 sequences)",
    "C07": "every comparison over all ordered pairs of 15 units; the complete product comparison x mutator x comparison of the Array history fold",
    "C08": "Array.to and Vector.to over all ordered pairs of 15 units",
    "C09": "v op w / Array / Quantity for + - * / over all ordered pairs of 10 units and 1-3 components",
    "C10": "np.power (exponents -2..3, both orders), square, reciprocal, negative over 15 units; np.multiply / np.true_divide over all ordered unit pairs",
    "C11": "map() over 60 scenarios (thin/thick x ordered pairs of layer operations x resolution forms)",
    "C12": "Loader.load over 324 scenarios",
    "C13": "every selection of variables in the body fold (88 cases); Loader.load over 324 scenarios",
    "C14": "the particle header for every selection of six variables under two type assignments (128 cases)",
    "C15": "Loader.load over 324 scenarios",
    "C17": "every in-place operator over all ordered pairs of 15 units",
    "C18": "every accepted axis string in every mix of upper and lower case (54 spellings)",
    "C19": "the per-layer effect of the reduction operation in map() over 60 scenarios",
    "C20": "every sequence of up to 3 dictionary operations on a fresh Datagroup against a reference dictionary (1884 sequences)",
}
checks, na = [], []
for p in props:
    pid = p["id"]
    mod = importlib.import_module("sa.rules.%s" % pid.lower())
    if getattr(mod, "EXPLANATION", "not implemented") == "not implemented":
        na.append({"property_id": pid, "reason": NA.get(pid, "check under construction in this session (static rules designed "
                                                         "in DESIGN.md section 4, not yet implemented)")})
        continue
    checks.append({
        "property_id": pid,
        "quick_cmd": "./vcheck %s --tier quick" % pid,
        "thorough_cmd": "./vcheck %s --tier thorough" % pid,
        "evidence_file": "/verif/evidence/%s.json" % pid,
        "replay_cmd_template": "./vcheck replay {path}",
        "engine": "sa",
        "level_claimed": {
            "category": "other",
            "text": "Static analysis of /repo's current source (no execution of osyris): necessary structural clauses of the "
                    "property are decided on every path / for every symbolic parameter. " + mod.EXPLANATION +
                    (" THOROUGH tier additionally folds: " + THOROUGH[pid] + "; and reports the in-memory mutation self-test of this property's rules." if pid in THOROUGH
                     else " THOROUGH tier: the quick rules plus the in-memory mutation self-test of this property's rules.") +
                    " A pass means these clauses hold, not that the behavioural property holds for all inputs.",
            "design_ref": "DESIGN.md section 4 (%s: clauses) and section 11.4 (mechanism as built)" % pid,
        },
        "level_note": "Not decided by this check: " + mod.NOT_DECIDED + ". Trusted base: " + "; ".join(getattr(mod, "TRUSTED", ())) + ".",
        "technique": getattr(mod, "TECHNIQUE", "static analysis: AST path/dominance rules, table and sibling-agreement rules, "
                                                "abstract interpretation in small domains (polynomial forms, dimensions, finite cases)"),
    })
m = {
    "version": 1,
    "setup_cmd": "true",
    "hooks": {"guard": "OSYRIS_VERIF",
              "enable": "no hooks: the checks are static analyses of /repo's source and need no instrumentation or build",
              "baseline_off_cmd": "cd /repo && /venv/bin/python -m pytest -ra -q -p no:cacheprovider --timeout=900 --continue-on-collection-errors",
              "source_commits": [], "add_only": True},
    "engines": [{"name": "sa", "path": "/verif/sa", "serves_properties": [c["property_id"] for c in checks],
                 "kind_free_text": "package-specific static analyser over Python syntax trees: an abstract interpreter (sa/models.py) that folds the "
                                   "repository's own functions and classes over abstract tokens (buffer origins, unit monomials, exact polynomials / rational "
                                   "functions, symbolic file positions) with models for numpy/pint/struct; plus symbolic evaluation of the numba kernels, "
                                   "parallel-loop write classification, provenance / dependence / limit analyses, resolved who-may-call rules and oracle tables; "
                                   "standard library only; no osyris code is imported or executed"}],
    "checks": checks,
    "not_applicable": na,
    "notes": "Technique family: static analysis. Exit 0 = every obligation discharged (known findings printed as KNOWN-FINDING); "
             "exit 1 + VIOLATION line = an obligation is violated by a named construct; exit 2 + ANALYSIS-ERROR = the code has a "
             "shape the analysis does not understand (fail closed, never a silent pass). The quick tier runs every rule of the "
             "property; the thorough tier widens the case spaces of the folds (complete products of units, selections, histories, scenarios: see "
             "level_claimed of each check) and adds the in-memory mutant battery (self-test) of the property's rules.",
}
json.dump(m, open(os.path.join(VERIF, "MANIFEST.json"), "w"), indent=1)
print("checks:", [c["property_id"] for c in checks], "not_applicable:", [n["property_id"] for n in na])
