#!/usr/bin/env python3
"""Regenerate MANIFEST.json from the rule modules (EXPLANATION / NOT_DECIDED / TRUSTED) — run after adding a property."""
import importlib
import json
import os
import sys

sys.path.insert(0, os.path.dirname(os.path.dirname(os.path.abspath(__file__))))
VERIF = os.path.dirname(os.path.dirname(os.path.abspath(__file__)))
props = [json.loads(l) for l in open(os.path.join(VERIF, "properties.jsonl"))]
NA = {}  # property id -> reason (genuinely not applicable)
TECH = {}
checks, na = [], []
for p in props:
    pid = p["id"]
    mod = importlib.import_module("sa.rules.%s" % pid.lower())
    if getattr(mod, "EXPLANATION", "not implemented") == "not implemented":
        na.append({"property_id": pid, "reason": NA.get(pid, "check under construction in this session (static rules designed "
                                                         "in DESIGN.md section 4, not yet implemented)")})
        continue
    checks.append({
        "property_id": pid,
        "quick_cmd": "./vcheck %s --tier quick" % pid,
        "thorough_cmd": "./vcheck %s --tier thorough" % pid,
        "evidence_file": "/verif/evidence/%s.json" % pid,
        "replay_cmd_template": "./vcheck replay {path}",
        "engine": "sa",
        "level_claimed": {
            "category": "other",
            "text": "Static analysis of /repo's current source (no execution of osyris): necessary structural clauses of the "
                    "property are decided on every path / for every symbolic parameter. " + mod.EXPLANATION +
                    " A pass means these clauses hold, not that the behavioural property holds for all inputs.",
            "design_ref": "DESIGN.md section 4, %s" % pid,
        },
        "level_note": "Not decided by this check: " + mod.NOT_DECIDED + ". Trusted base: " + "; ".join(getattr(mod, "TRUSTED", ())) + ".",
        "technique": getattr(mod, "TECHNIQUE", "static analysis: AST path/dominance rules, table and sibling-agreement rules, "
                                                "abstract interpretation in small domains (polynomial forms, dimensions, finite cases)"),
    })
m = {
    "version": 1,
    "setup_cmd": "true",
    "hooks": {"guard": "OSYRIS_VERIF",
              "enable": "no hooks: the checks are static analyses of /repo's source and need no instrumentation or build",
              "baseline_off_cmd": "cd /repo && /venv/bin/python -m pytest -ra -q -p no:cacheprovider --timeout=900 --continue-on-collection-errors",
              "source_commits": [], "add_only": True},
    "engines": [{"name": "sa", "path": "/verif/sa", "serves_properties": [c["property_id"] for c in checks],
                 "kind_free_text": "package-specific static analyser over Python syntax trees: resolved call graph, path "
                                   "enumeration / dominance, abstract interpretation in small domains (canonical polynomial "
                                   "forms, physical dimensions, provenance, dependence, limits, finite cases), oracle tables; "
                                   "standard library only"}],
    "checks": checks,
    "not_applicable": na,
    "notes": "Technique family: static analysis. Exit 0 = every obligation discharged (known findings printed as KNOWN-FINDING); "
             "exit 1 + VIOLATION line = an obligation is violated by a named construct; exit 2 + ANALYSIS-ERROR = the code has a "
             "shape the analysis does not understand (fail closed, never a silent pass). The quick tier runs every rule of the "
             "property; the thorough tier adds package-wide sweeps and the in-memory mutant battery (self-test).",
}
json.dump(m, open(os.path.join(VERIF, "MANIFEST.json"), "w"), indent=1)
print("checks:", [c["property_id"] for c in checks], "not_applicable:", [n["property_id"] for n in na])
