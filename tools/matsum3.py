#!/usr/bin/env python3
import json, sys
for root, benign in (("/tmp/seed3", False), ("/tmp/refac3", True)):
    try: m=json.load(open(root+"/MATRIX.json"))
    except Exception as e: print(root, e); continue
    bad=0
    for k,r in sorted(m.items()):
        if 'error' in r: print(k, r['error'][:80]); bad+=1; continue
        fired=[p+":"+"+".join(x.split(".")[1] for x in r[p]["rules"]) for p in sorted(r) if r[p]["exit"]==1]
        ae=[p for p in sorted(r) if r[p]["exit"]==2]
        if benign:
            if fired or ae: bad+=1; print("%-8s NOISY  fired=%s AE=%s" % (k, ",".join(fired), ",".join(ae)))
        else:
            if r[k[:3]]["exit"]!=1: bad+=1; print("%-8s MISSED fired=%s AE=%s" % (k, ",".join(fired), ",".join(ae)))
    print(root, len(m), "entries;", bad, "problems")
