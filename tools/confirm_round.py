#!/usr/bin/env python3
"""Confirm seeded changes written by sub-agents: for each <root>/<id>/ (patch.diff, demo.py, notes.md) — in a scratch worktree
of /repo HEAD the test suite passes with the change, the demo fails with it and passes without it.  Writes
<root>/CONFIRM.json.  Usage: tools/confirm_round.py <root>"""
import json, os, subprocess, sys, tempfile, shutil
from concurrent.futures import ThreadPoolExecutor

root = os.path.abspath(sys.argv[1])


def sh(cmd, **kw):
    return subprocess.run(cmd, shell=True, capture_output=True, text=True, **kw)


def one(args):
    idx, name = args
    d = os.path.join(root, name)
    wt = "/tmp/wt_confirm_%d" % idx
    sh("git -C /repo worktree remove --force %s" % wt)
    sh("git -C /repo worktree add -q --detach %s HEAD" % wt)
    out = {"id": name}
    try:
        env = lambda h: dict(os.environ, HOME=h, PYTHONPATH=wt + "/src")
        h0 = tempfile.mkdtemp()
        r = sh("cd /tmp && timeout 900 /venv/bin/python %s/demo.py" % d, env=env(h0))
        out["demo_exit_without_change"] = r.returncode
        a = sh("git -C %s apply %s/patch.diff" % (wt, d))
        if a.returncode:
            out["error"] = "patch does not apply: " + a.stderr[:200]
            return out
        h1 = tempfile.mkdtemp()
        t = sh("cd %s && timeout 1200 /venv/bin/python -m pytest -q -p no:cacheprovider 2>&1 | tail -1" % wt, env=env(h1))
        out["test_suite_with_change"] = t.stdout.strip()
        h2 = tempfile.mkdtemp()
        r = sh("cd /tmp && timeout 900 /venv/bin/python %s/demo.py" % d, env=env(h2))
        out["demo_exit_with_change"] = r.returncode
        out["demo_tail_with_change"] = (r.stdout + r.stderr).strip().splitlines()[-3:]
        for h in (h0, h1, h2):
            shutil.rmtree(h, ignore_errors=True)
        return out
    finally:
        sh("git -C /repo worktree remove --force %s" % wt)


names = sorted(n for n in os.listdir(root) if os.path.isfile(os.path.join(root, n, "patch.diff")))
with ThreadPoolExecutor(8) as ex:
    res = list(ex.map(one, enumerate(names)))
json.dump(res, open(os.path.join(root, "CONFIRM.json"), "w"), indent=1)
for r in res:
    ok = r.get("demo_exit_without_change") == 0 and r.get("demo_exit_with_change") not in (0, None) and "passed" in r.get("test_suite_with_change", "") and "failed" not in r.get("test_suite_with_change", "")
    print("%-10s %s  clean=%s mutant=%s tests=%r %s" % (r["id"], "CONFIRMED" if ok else "NOT-CONFIRMED", r.get("demo_exit_without_change"), r.get("demo_exit_with_change"),
                                                    r.get("test_suite_with_change"), r.get("error", "")))
