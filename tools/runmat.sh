#!/bin/sh
# snapshot /verif and run selftest + the three change matrices on the snapshot (so that edits in /verif do not disturb the run)
S=/tmp/vsnap_$$
rm -rf $S; mkdir -p $S; rsync -a --exclude .git --exclude evidence /verif/ $S/
cd $S
{
./vcheck selftest 2>&1 | grep -v "killed \|silent \|WARN" | tail -8
for r in seeded; do /venv/bin/python tools/seedmatrix.py $r >/dev/null 2>&1; python3 tools/matsum.py $r; done
/venv/bin/python tools/seedmatrix.py benign >/dev/null 2>&1; python3 tools/matsum.py benign b
} > /tmp/matsummary.txt 2>&1
cp $S/seeded/MATRIX.json /tmp/MATRIX_seeded.json; cp $S/benign/MATRIX.json /tmp/MATRIX_benign.json
rm -rf $S
