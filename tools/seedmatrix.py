#!/usr/bin/env python3
"""Run every check against every seeded change: apply the patch to a scratch worktree of /repo, run all 20 checks with
VERIF_REPO pointing at it, record which properties report a VIOLATION / ANALYSIS-ERROR.  Writes seeded/MATRIX.json."""
import json
import os
import subprocess
import sys
from concurrent.futures import ThreadPoolExecutor

VERIF = os.path.dirname(os.path.dirname(os.path.abspath(__file__)))
PROPS = ["C%02d" % i for i in range(1, 21)]


def sh(cmd, **kw):
    return subprocess.run(cmd, shell=True, capture_output=True, text=True, **kw)


def one(args):
    idx, (name, patch) = args
    wt = "/tmp/wt_matrix_%d" % idx
    sh("git -C /repo worktree remove --force %s" % wt)
    r = sh("git -C /repo worktree add -q --detach %s HEAD" % wt)
    try:
        a = sh("git -C %s apply %s" % (wt, patch))
        if a.returncode:
            return name, {"error": "patch does not apply: " + a.stderr[:200]}
        res = {}
        for p in PROPS:
            out = sh("cd %s && VERIF_REPO=%s VERIF_NO_EVIDENCE=1 ./vcheck %s" % (VERIF, wt, p))
            rules = sorted({ln.split()[1] for ln in out.stdout.splitlines() if ln.strip().startswith("rule ")})
            res[p] = {"exit": out.returncode, "rules": rules}
        return name, res
    finally:
        sh("git -C /repo worktree remove --force %s" % wt)


def main():
    root = os.path.abspath(sys.argv[1] if len(sys.argv) > 1 else os.path.join(VERIF, "seeded"))
    items = []
    for d in sorted(os.listdir(root)):
        dd = os.path.join(root, d)
        if not os.path.isdir(dd) or d.startswith("_"):
            continue
        for sub in sorted(os.listdir(dd)):
            pth = os.path.join(dd, sub, "patch.diff")
            if os.path.exists(pth) and os.path.exists(os.path.join(dd, sub, "notes.md")):
                items.append(("%s/%s" % (d, sub), pth))
            elif sub == "patch.diff":
                items.append((d, os.path.join(dd, sub)))
    with ThreadPoolExecutor(14) as ex:
        results = dict(ex.map(one, enumerate(items)))
    json.dump(results, open(os.path.join(root, "MATRIX.json"), "w"), indent=1, sort_keys=True)
    for name in sorted(results):
        r = results[name]
        if "error" in r:
            print(name, r["error"])
            continue
        fired = [p for p in PROPS if r[p]["exit"] == 1]
        broken = [p for p in PROPS if r[p]["exit"] == 2]
        print("%-14s fired: %-40s analysis-error: %s" % (name, ",".join(fired), ",".join(broken)))


if __name__ == "__main__":
    main()
